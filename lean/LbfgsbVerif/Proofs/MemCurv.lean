/-
  Run-level memory invariant that survives objective redefinitions: whatever the update function
  does to the stored gradients (as long as it returns as many as it was given), the history the
  driver keeps has consecutive pairs passing the curvature test, is never empty and never longer
  than `maxcor + 1` — for the final state and for every state handed to the callback (level U).
-/
import LbfgsbVerif.Proofs.Identity
import LbfgsbVerif.Proofs.C18

namespace Lbfgsb
variable {α ε δ : Type}
variable [LinearOrder α] [Add α] [Sub α] [Mul α] [Div α] [Neg α] [OfNat α 0] [OfNat α 1] [FloatLike α]

/-- a result's pairs come from a history with the curvature property -/
def PairsFrom (c : Cfg α) (r : Result α) : Prop :=
  ∃ X G : List (Vec α), r.sk = diffs X ∧ r.yk = diffs G ∧ X.length = G.length ∧ X ≠ [] ∧
    C13.PairsOk c.epsSY X G ∧ X.length ≤ c.maxcor + 1

/-- the update function returns as many stored gradients as it was given -/
def UpdLen (u : User α ε) : Prop := ∀ (i : UpdIn α) r, u.update i = .ok r → r.G.length = i.G.length

structure MemC (c : Cfg α) (s : St α) : Prop where
  len : s.X.length = s.G.length
  pos : s.X ≠ []
  pairs : C13.PairsOk c.epsSY s.X s.G
  bound : s.X.length ≤ c.maxcor + 1
  cbs : ∀ cb ∈ s.cbStates, PairsFrom c cb

theorem MemC.result {c : Cfg α} {s : St α} (h : MemC c s) : PairsFrom c s.result :=
  ⟨s.X, s.G, rfl, rfl, h.len, h.pos, h.pairs, h.bound⟩

omit [Div α] [Neg α] [OfNat α 1] [FloatLike α] in
theorem filter_spec (eps : α) (X G : List (Vec α)) (hne : X ≠ []) (hl : X.length = G.length) :
    C13.PairsOk eps (filterWolfe X G eps).1 (filterWolfe X G eps).2 ∧
    (filterWolfe X G eps).1.length = (filterWolfe X G eps).2.length ∧
    (filterWolfe X G eps).1 ≠ [] ∧ (filterWolfe X G eps).1.length ≤ X.length := by
  have hG : G ≠ [] := by
    intro h; rw [h] at hl; exact hne (List.length_eq_zero_iff.1 hl)
  refine ⟨C13.filter_curvature eps X G hne hG, ?_, ?_, (C13.filter_subsequence eps X G).length_le⟩
  · unfold filterWolfe
    split
    · rename_i xl xs gl gs hx hg
      exact (C13.filterGo_spec eps xs.reverse gs.reverse ([xl], [gl]) (by simp [C13.PairsOk]) rfl (by simp)).2.1
    · exact hl
  · unfold filterWolfe
    split
    · rename_i xl xs gl gs hx hg
      exact (C13.filterGo_spec eps xs.reverse gs.reverse ([xl], [gl]) (by simp [C13.PairsOk]) rfl (by simp)).2.2.1
    · exact hne

theorem stopTests_memC (c : Cfg α) (s : St α) (f0Old : α) (hi : MemC c s) : MemC c (stopTests c s f0Old).1 := by
  unfold stopTests
  split
  · exact ⟨hi.len, hi.pos, hi.pairs, hi.bound, hi.cbs⟩
  · split
    · exact ⟨hi.len, hi.pos, hi.pairs, hi.bound, hi.cbs⟩
    · exact hi

theorem afterEval_memC (u : User α ε) (hu : UpdLen u) (c : Cfg α) (s s' : St α) (f0Old : α) (stop : Bool)
    (hi : MemC c s) (h : afterEval u c s f0Old = .ok (s', stop)) : MemC c s' := by
  unfold afterEval at h
  split at h
  · simp only [bind, Except.bind] at h
    split at h
    · simp at h
    · rename_i r hr
      have hlen := hu _ r hr
      simp only [St.logCall] at hlen
      simp only [pure, Except.pure, Except.ok.injEq] at h
      have hl : s.X.length = r.G.length := by rw [hlen]; exact hi.len
      obtain ⟨f1, f2, f3, f4⟩ := filter_spec c.epsSY s.X r.G hi.pos hl
      have hfst := congrArg Prod.fst h
      simp only at hfst
      rw [← hfst]
      apply stopTests_memC
      exact ⟨f2, f3, f1, Nat.le_trans f4 hi.bound, hi.cbs⟩
  · simp only [pure, Except.pure, Except.ok.injEq] at h
    have := stopTests_memC c s f0Old hi
    rw [h] at this
    exact this

theorem memStep_memC (c : Cfg α)
    (hsym : ∀ x g x' g' : Vec α, curvOk x g x' g' c.epsSY = curvOk x' g' x g c.epsSY)
    (s : St α) (hi : MemC c s) : MemC c (memStep c s) := by
  unfold memStep updateMats
  dsimp only
  split
  · rename_i hk
    have hl : (s.X ++ [s.x]).length = (s.G ++ [s.g]).length := by simp [hi.len]
    have hp := pairsOk_append c.epsSY hsym s.X s.G s.x s.g hi.len hi.pairs hk
    split
    · rename_i hgt
      simp only [List.length_append, List.length_singleton] at hgt
      refine ⟨by simp [hi.len], ?_, pairsOk_drop1 _ _ _ hp, ?_, hi.cbs⟩
      · intro h0
        have := congrArg List.length h0
        simp only [List.length_drop, List.length_append, List.length_singleton, List.length_nil] at this
        omega
      · have := hi.bound
        simp only [List.length_drop, List.length_append, List.length_singleton]
        omega
    · rename_i hng
      simp only [List.length_append, List.length_singleton] at hng
      exact ⟨hl, by simp, hp, by simp only [List.length_append, List.length_singleton]; omega, hi.cbs⟩
  · exact ⟨hi.len, hi.pos, hi.pairs, hi.bound, hi.cbs⟩

theorem iterFail_memC (c : Cfg α) (s : St α) (hi : MemC c s) : MemC c (iterFail s).1 := by
  unfold iterFail
  split
  · exact ⟨hi.len, hi.pos, hi.pairs, hi.bound, hi.cbs⟩
  · exact ⟨rfl, by simp, by simp [C13.PairsOk], by simp, hi.cbs⟩

theorem doCallback_memC (u : User α ε) (c : Cfg α) (s s' : St α) (hi : MemC c s)
    (h : doCallback u c s = .ok s') : MemC c s' := by
  unfold doCallback at h
  split at h
  · simp only [bind, Except.bind] at h
    split at h
    · simp at h
    · simp only [pure, Except.pure, Except.ok.injEq] at h
      have hcb : ∀ cb ∈ s.cbStates ++ [{ s.result with nit := s.nit + 1 }], PairsFrom c cb := by
        intro cb hcb
        rcases List.mem_append.1 hcb with h1 | h1
        · exact hi.cbs cb h1
        · simp only [List.mem_singleton] at h1
          rw [h1]
          exact hi.result
      rw [← h]
      split
      · exact ⟨hi.len, hi.pos, hi.pairs, hi.bound, hcb⟩
      · exact ⟨hi.len, hi.pos, hi.pairs, hi.bound, hcb⟩
  · simp only [pure, Except.pure, Except.ok.injEq] at h
    rw [← h]; exact hi

theorem iterStep_memC (u : User α ε) (hu : UpdLen u) (c : Cfg α)
    (hsym : ∀ x g x' g' : Vec α, curvOk x g x' g' c.epsSY = curvOk x' g' x g c.epsSY)
    (s s' : St α) (d : Vec α) (stp f0Old : α) (flow : Flow) (hi : MemC c s)
    (h : iterStep u c s d stp f0Old = .ok (s', flow)) : MemC c s' := by
  unfold iterStep at h
  simp only [bind, Except.bind] at h
  split at h
  · simp at h
  · rename_i e he
    split at h
    · simp at h
    · rename_i r hr
      obtain ⟨s1, stop⟩ := r
      have h1 := afterEval_memC u hu c _ s1 f0Old stop
        (⟨hi.len, hi.pos, hi.pairs, hi.bound, hi.cbs⟩ :
          MemC c { s with x := trial s.x d c.lb c.ub stp, f := e.2.1, g := e.2.2, sf := e.1 }) hr
      dsimp only at h
      split at h
      · simp only [pure, Except.pure, Except.ok.injEq, Prod.mk.injEq] at h
        rw [← h.1]; exact h1
      · split at h
        · simp at h
        · rename_i s2 hs2
          have h2 := doCallback_memC u c _ s2 (memStep_memC c hsym s1 h1) hs2
          simp only [pure, Except.pure, Except.ok.injEq, Prod.mk.injEq] at h
          rw [← h.1]
          exact ⟨h2.len, h2.pos, h2.pairs, h2.bound, h2.cbs⟩

theorem iterBody_memC (u : User α ε) (o : Oracles α δ) (hu : UpdLen u) (c : Cfg α)
    (hsym : ∀ x g x' g' : Vec α, curvOk x g x' g' c.epsSY = curvOk x' g' x g c.epsSY)
    (s s' : St α) (flow : Flow) (hi : MemC c s) (h : iterBody u o c s = .ok (s', flow)) : MemC c s' := by
  unfold iterBody at h
  simp only [bind, Except.bind] at h
  split at h
  · simp at h
  · rename_i r hr
    obtain ⟨sfL, stp?, olog⟩ := r
    dsimp only at h
    have hmid : MemC c { s with sf := sfL, olog := olog } := ⟨hi.len, hi.pos, hi.pairs, hi.bound, hi.cbs⟩
    cases stp? with
    | none =>
      simp only [pure, Except.pure, Except.ok.injEq] at h
      have := iterFail_memC c _ hmid
      rw [h] at this
      exact this
    | some stp =>
      simp only at h
      exact iterStep_memC u hu c hsym _ s' _ stp s.f flow hmid h

theorem mainLoop_memC (u : User α ε) (o : Oracles α δ) (hu : UpdLen u) (c : Cfg α)
    (hsym : ∀ x g x' g' : Vec α, curvOk x g x' g' c.epsSY = curvOk x' g' x g c.epsSY) :
    ∀ (fuel : Nat) (s s' : St α), MemC c s → mainLoop u o c fuel s = .ok s' → MemC c s' := by
  intro fuel
  induction fuel with
  | zero =>
    intro s s' hi h
    simp only [mainLoop, pure, Except.pure, Except.ok.injEq] at h
    rw [← h]; exact hi
  | succ fuel ih =>
    intro s s' hi h
    simp only [mainLoop] at h
    split at h
    · simp only [bind, Except.bind] at h
      split at h
      · simp at h
      · rename_i r hr
        obtain ⟨s1, flow⟩ := r
        have i1 := iterBody_memC u o hu c hsym s s1 flow hi hr
        cases flow with
        | brk =>
          simp only [pure, Except.pure, Except.ok.injEq] at h
          rw [← h]; exact i1
        | next =>
          simp only at h
          exact ih s1 s' i1 h
    · simp only [pure, Except.pure, Except.ok.injEq] at h
      rw [← h]; exact hi

/-- a fresh run enters the loop with the one-point history, whether or not there is an update
function -/
theorem prepare_fresh_any (u : User α ε) (c : Cfg α) (i : Init α) (s : St α)
    (hX : i.X = []) (hG : i.G = []) (h : prepare u c i = .ok s) :
    s.X = [s.x] ∧ s.G = [s.g] ∧ s.cbStates = [] := by
  unfold prepare at h
  simp only [bind, Except.bind] at h
  split at h
  · simp at h
  · rename_i e he
    split at h
    · simp at h
    · rename_i s1 hs1
      have h1 : s1.cbStates = [] ∧ s1.X = [] ∧ s1.G = [] := by
        unfold applyScaler at hs1
        split at hs1
        · simp only [bind, Except.bind] at hs1
          split at hs1
          · simp at hs1
          · simp only [pure, Except.pure] at hs1
            injection hs1 with hs1; subst hs1
            exact ⟨rfl, hX, hG⟩
        · simp only [pure, Except.pure] at hs1
          injection hs1 with hs1; subst hs1
          exact ⟨rfl, hX, hG⟩
      split at h
      · simp at h
      · rename_i s2 hs2
        simp only [pure, Except.pure] at h
        injection h with h; subst h
        unfold applyUpdate0 at hs2
        split at hs2
        · simp only [bind, Except.bind] at hs2
          split at hs2
          · simp at hs2
          · rename_i r hr
            simp only [pure, Except.pure, Except.ok.injEq] at hs2
            subst hs2
            unfold initMemory
            simp [St.logCall, h1.1, h1.2.1]
        · simp only [pure, Except.pure, Except.ok.injEq] at hs2
          subst hs2
          unfold initMemory
          simp [h1.1, h1.2.1]

/-- **every result and callback state of a fresh run — with or without objective redefinitions —
carries pairs with the curvature property, at most `maxcor` of them** -/
theorem minimize_memC (u : User α ε) (o : Oracles α δ) (hu : UpdLen u) (c : Cfg α)
    (hsym : ∀ x g x' g' : Vec α, curvOk x g x' g' c.epsSY = curvOk x' g' x g c.epsSY)
    (hck : c.checkpoint = none) (r : Result α) (s : St α) (h : minimize u o c = .ok (r, s)) :
    PairsFrom c r ∧ ∀ cb ∈ s.cbStates, PairsFrom c cb := by
  unfold minimize at h
  simp only [bind, Except.bind] at h
  split at h
  · simp at h
  · rename_i i hi
    obtain ⟨hX0, hG0⟩ := initEval_fresh u c i hck hi
    split at h
    · -- the start already meets the target
      simp only [pure, Except.pure, Except.ok.injEq] at h
      unfold earlyResult at h
      rw [hck] at h
      simp only [Prod.mk.injEq] at h
      obtain ⟨h1, h2⟩ := h
      subst h2
      rw [← h1]
      exact ⟨⟨[i.x], [i.x.map fun _ => 0], rfl, rfl, rfl, by simp, by simp [C13.PairsOk], by simp⟩,
        by simp [Init.state]⟩
    · split at h
      · simp at h
      · rename_i s0 hs0
        obtain ⟨hXs, hGs, hcbs⟩ := prepare_fresh_any u c i s0 hX0 hG0 hs0
        have inv0 : MemC c s0 :=
          ⟨by rw [hXs, hGs]; rfl, by rw [hXs]; simp, by rw [hXs, hGs]; simp [C13.PairsOk],
           by rw [hXs]; simp, by rw [hcbs]; simp⟩
        split at h
        · simp at h
        · rename_i s1 hs1
          simp only [pure, Except.pure, Except.ok.injEq, Prod.mk.injEq] at h
          have inv1 := mainLoop_memC u o hu c hsym _ s0 s1 inv0 hs1
          have hcl : MemC c (classify c s1) := by
            unfold classify
            repeat' split
            all_goals exact ⟨inv1.len, inv1.pos, inv1.pairs, inv1.bound, inv1.cbs⟩
          rw [← h.1, ← h.2]
          exact ⟨hcl.result, hcl.cbs⟩

end Lbfgsb
