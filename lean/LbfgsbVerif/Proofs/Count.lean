/-
  Counting lemmas: `nfev` / `ngev` of the wrapper equal the number of objective / gradient
  entries of its log (plus the counts it started from — a restart inherits the checkpoint's).
-/
import LbfgsbVerif.Proofs.SF

namespace Lbfgsb
variable {α ε : Type}

/-- number of objective calls in a log -/
def nF (l : List (Call α)) : Nat := (l.filter (fun c => c.kind = .F)).length
/-- number of gradient calls in a log -/
def nG (l : List (Call α)) : Nat := (l.filter (fun c => c.kind = .G)).length

/-- counter invariant: the counters are the initial counts plus the calls logged -/
def CountedFrom (n g : Nat) (s : SF α) : Prop :=
  s.nfev = n + nF s.log ∧ (s.mode = .callable → s.ngev = g + nG s.log)

@[simp] theorem nF_append_F (l : List (Call α)) (p : Vec α) :
    nF (l ++ [Call.mk .F p]) = nF l + 1 := by simp [nF]
@[simp] theorem nG_append_F (l : List (Call α)) (p : Vec α) :
    nG (l ++ [Call.mk .F p]) = nG l := by simp [nG]
@[simp] theorem nF_append_G (l : List (Call α)) (p : Vec α) :
    nF (l ++ [Call.mk .G p]) = nF l := by simp [nF]
@[simp] theorem nG_append_G (l : List (Call α)) (p : Vec α) :
    nG (l ++ [Call.mk .G p]) = nG l + 1 := by simp [nG]

/-- entries of other kinds do not count -/
theorem nF_append_other (l : List (Call α)) (k : CallKind) (p : Vec α) (hk : k ≠ .F) :
    nF (l ++ [Call.mk k p]) = nF l := by simp [nF, hk]
theorem nG_append_other (l : List (Call α)) (k : CallKind) (p : Vec α) (hk : k ≠ .G) :
    nG (l ++ [Call.mk k p]) = nG l := by simp [nG, hk]

@[simp] theorem nF_append_fcalls (l : List (Call α)) (ps : List (Vec α)) :
    nF (l ++ fcalls ps) = nF l + ps.length := by
  induction ps generalizing l with
  | nil => simp [fcalls]
  | cons p ps ih =>
    have : l ++ fcalls (p :: ps) = (l ++ [Call.mk .F p]) ++ fcalls ps := by simp [fcalls]
    rw [this, ih]; simp; omega
@[simp] theorem nG_append_fcalls (l : List (Call α)) (ps : List (Vec α)) :
    nG (l ++ fcalls ps) = nG l := by
  induction ps generalizing l with
  | nil => simp [fcalls]
  | cons p ps ih =>
    have : l ++ fcalls (p :: ps) = (l ++ [Call.mk .F p]) ++ fcalls ps := by simp [fcalls]
    rw [this, ih]; simp

theorem updFun_counted {n g : Nat} {u : SFUser α ε} {s s' : SF α} (hc : CountedFrom n g s)
    (h : s.updFun u = .ok s') : CountedFrom n g s' ∧ s'.mode = s.mode := by
  unfold SF.updFun at h
  by_cases hf : s.fUpd = true
  · simp [hf, pure, Except.pure] at h; subst h; exact ⟨hc, rfl⟩
  · have hf' : s.fUpd = false := by simpa using hf
    simp only [hf', Bool.false_eq_true, if_false] at h
    cases h1 : s.callF u s.x with
    | error e => simp [h1, bind, Except.bind] at h
    | ok r =>
      obtain ⟨s1, v⟩ := r
      simp [h1, bind, Except.bind, pure, Except.pure] at h
      obtain ⟨-, hs1⟩ := callF_ok h1
      subst h; subst hs1
      exact ⟨⟨by simp [hc.1]; omega, fun hm => by simp [hc.2 hm]⟩, rfl⟩

section
variable [LT α] [DecidableLT α] [OfNat α 0]

theorem updGrad_counted {n g : Nat} {u : SFUser α ε} {s s' : SF α} (hc : CountedFrom n g s)
    (h : s.updGrad u = .ok s') : CountedFrom n g s' ∧ s'.mode = s.mode := by
  unfold SF.updGrad at h
  by_cases hg : s.gUpd = true
  · simp [hg, pure, Except.pure] at h; subst h; exact ⟨hc, rfl⟩
  · have hg' : s.gUpd = false := by simpa using hg
    simp only [hg', Bool.false_eq_true, if_false] at h
    cases hm : s.mode with
    | callable =>
      simp only [hm] at h
      cases hG : u.Gr s.x with
      | error e => simp [hG, bind, Except.bind] at h
      | ok g' =>
        simp [hG, bind, Except.bind, pure, Except.pure] at h
        subst h
        exact ⟨⟨by simp [hc.1], fun _ => by simp [hc.2 hm]; omega⟩, by simp [hm]⟩
    | fd =>
      simp only [hm] at h
      cases h1 : s.updFun u with
      | error e => simp [h1, bind, Except.bind] at h
      | ok s1 =>
        obtain ⟨hc1, hm1⟩ := updFun_counted hc h1
        cases h2 : SF.callFs u { s1 with ngev := s1.ngev + 1 } (u.fdPts s1.x s1.f) with
        | error e => simp [h1, h2, bind, Except.bind] at h
        | ok r =>
          obtain ⟨s2, vs⟩ := r
          simp [h1, h2, bind, Except.bind, pure, Except.pure] at h
          obtain ⟨-, hs2⟩ := callFs_ok h2
          subst h; subst hs2
          refine ⟨⟨by simp [hc1.1]; omega, fun hmm => ?_⟩, by simp [hm1, hm]⟩
          simp [hm1, hm] at hmm

theorem updateX_counted {n g : Nat} {s : SF α} (hc : CountedFrom n g s) (x : Vec α) :
    CountedFrom n g (s.updateX x) := by
  unfold SF.updateX
  split
  · exact hc
  · exact ⟨hc.1, hc.2⟩

variable [Mul α]

theorem funv_counted {n g : Nat} {u : SFUser α ε} {s s' : SF α} {x : Vec α} {f : α}
    (hc : CountedFrom n g s) (h : s.funv u x = .ok (s', f)) : CountedFrom n g s' := by
  simp only [SF.funv, bind, Except.bind] at h
  split at h
  · simp at h
  · rename_i s1 h1
    simp only [pure, Except.pure] at h
    injection h with h; injection h with h _; subst h
    exact (updFun_counted (updateX_counted hc x) h1).1

theorem gradv_counted {n g : Nat} {u : SFUser α ε} {s s' : SF α} {x : Vec α} {gr : Vec α}
    (hc : CountedFrom n g s) (h : s.gradv u x = .ok (s', gr)) : CountedFrom n g s' := by
  simp only [SF.gradv, bind, Except.bind] at h
  split at h
  · simp at h
  · rename_i s1 h1
    simp only [pure, Except.pure] at h
    injection h with h; injection h with h _; subst h
    exact (updGrad_counted (updateX_counted hc x) h1).1

theorem funAndGrad_counted {n g : Nat} {u : SFUser α ε} {s s' : SF α} {x : Vec α} {f : α}
    {gr : Vec α} (hc : CountedFrom n g s) (h : s.funAndGrad u x = .ok (s', f, gr)) :
    CountedFrom n g s' := by
  simp only [SF.funAndGrad, bind, Except.bind] at h
  split at h
  · simp at h
  · rename_i s1 h1
    split at h
    · simp at h
    · rename_i s2 h2
      simp only [pure, Except.pure] at h
      injection h with h; injection h with h _; subst h
      exact (updGrad_counted (updFun_counted (updateX_counted hc x) h1).1 h2).1

end
end Lbfgsb
