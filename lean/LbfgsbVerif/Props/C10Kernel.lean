/-
  C10 / C09 / C01 — the matrix the kernels use IS the BFGS matrix of the stored pairs, and is positive definite.

  `kernel_matrix_is_bfgs`: for the lists the model builds (`buildW`, `buildMinv`, Model/Kernels.lean — compared with
  `update_lbfgs_matrices` by the C10 differential), stored differences with `s ≠ 0`, `sᵀy > 0`, and `θ > 0`: with `Mm` any left
  inverse of the matrix of `buildMinv`, `θI − W Mm Wᵀ` is the dense BFGS recursion applied pair after pair to `θI`, symmetric
  positive definite. (Proofs/CompactBridge.lean: the bordered form for which Byrd–Nocedal–Schnabel's theorem is proved and the
  block form `[Y θS]`, `[[−D, Lᵀ],[L, θSᵀS]]` are the same matrices up to the order of the columns; Proofs/CompactKernel.lean: the
  lists are the block form.)

  `subspace_newton_point_curv`: hence the subspace theorem of C09 holds for a kernel input built from such pairs with no
  hypothesis on solves or on definiteness: sizes, a feasible Cauchy point, `c = Wᵀ(x_cp − x)` (C08), positive curvature.
-/
import LbfgsbVerif.Proofs.CompactKernel
import LbfgsbVerif.Props.C09Solve

set_option linter.unusedSectionVars false

namespace Lbfgsb.C10
open Lbfgsb Matrix CompactKernel Lbfgsb.Gauss
variable {K : Type} [Field K] [LinearOrder K] [IsStrictOrderedRing K]

/-- **C10 (the kernels' matrix is the BFGS matrix of the stored pairs, SPD)** -/
theorem kernel_matrix_is_bfgs (nn : Nat) (θ : K) (S Y : List (Vec K)) (hθ : 0 < θ) (h : S.length = Y.length)
    (hS : ∀ j, j < S.length → (S.getD j []).length = nn) (hY : ∀ j, j < S.length → (Y.getD j []).length = nn)
    (hcurv : ∀ j, j < S.length → vec nn (S.getD j []) ≠ 0 ∧ 0 < vec nn (S.getD j []) ⬝ᵥ vec nn (Y.getD j []))
    (Mm : Matrix (Fin ((lOf nn S Y).length + (lOf nn S Y).length)) (Fin ((lOf nn S Y).length + (lOf nn S Y).length)) K)
    (hM : Mm * wmat ((lOf nn S Y).length + (lOf nn S Y).length) ((lOf nn S Y).length + (lOf nn S Y).length)
      (buildMinv θ S Y) = 1) :
    bmat θ (wmat nn ((lOf nn S Y).length + (lOf nn S Y).length) (buildW nn θ S Y)) Mm =
        bfgsChain (θ • (1 : Matrix (Fin nn) (Fin nn) K)) (pairsOf nn S Y) ∧
    SPD (bfgsChain (θ • (1 : Matrix (Fin nn) (Fin nn) K)) (pairsOf nn S Y)) :=
  kernel_model_eq_bfgs nn θ S Y hθ h hS hY hcurv Mm hM

theorem buildMinv_length (θ : K) (S Y : List (Vec K)) : (buildMinv θ S Y).length = S.length + S.length := by
  simp [buildMinv]

theorem buildMinv_rows (θ : K) (S Y : List (Vec K)) : ∀ row ∈ buildMinv θ S Y, row.length = S.length + S.length := by
  intro row hr
  simp only [buildMinv, List.mem_append, List.mem_map, List.mem_range] at hr
  rcases hr with ⟨i, _, rfl⟩ | ⟨i, _, rfl⟩ <;> simp

/-- **C09 (… from the curvature of the stored pairs)** -/
theorem subspace_newton_point_curv (i : SubIn K) (n : Nat) (S Y : List (Vec K)) (hn : 0 < n)
    (hWeq : i.W = buildW n i.theta S Y) (hMeq : i.Minv = buildMinv i.theta S Y)
    (hθ : 0 < i.theta) (h : S.length = Y.length)
    (hS : ∀ j, j < S.length → (S.getD j []).length = n) (hY : ∀ j, j < S.length → (Y.getD j []).length = n)
    (hcurv : ∀ j, j < S.length → vec n (S.getD j []) ≠ 0 ∧ 0 < vec n (S.getD j []) ⬝ᵥ vec n (Y.getD j []))
    (Mm : Matrix (Fin ((lOf n S Y).length + (lOf n S Y).length)) (Fin ((lOf n S Y).length + (lOf n S Y).length)) K)
    (hM : Mm * wmat ((lOf n S Y).length + (lOf n S Y).length) ((lOf n S Y).length + (lOf n S Y).length) i.Minv = 1)
    (hx : i.x.length = n) (hg : i.g.length = n) (hxc : i.xc.length = n)
    (hcl : i.c.length = (lOf n S Y).length + (lOf n S Y).length) (box : InBoxF i.lb i.ub i.xc) (uf : i.useFactor = true)
    (hc : vec ((lOf n S Y).length + (lOf n S Y).length) i.c =
      (wmat n ((lOf n S Y).length + (lOf n S Y).length) i.W)ᵀ *ᵥ (vec n i.xc - vec n i.x)) :
    ∃ (al : K) (u : Vec K), u.length = n ∧ 0 ≤ al ∧ al ≤ 1 ∧ subspaceMin i = vadd i.xc (smul al u) ∧
      InBoxF i.lb i.ub (subspaceMin i) ∧
      (∀ r, maskF n (freeMask i.xc i.lb i.ub) r = false → vec n u r = 0) ∧
      (∀ r, maskF n (freeMask i.xc i.lb i.ub) r = true →
        (vec n i.g + bmat i.theta (wmat n ((lOf n S Y).length + (lOf n S Y).length) i.W) Mm *ᵥ
          ((vec n i.xc - vec n i.x) + vec n u)) r = 0) := by
  have hm := lOf_length n S Y h
  have hWl : i.W.length = n := by rw [hWeq]; exact buildW_length _ _ _ _
  have hrow : ∀ r, r < n → (i.W.getD r []).length = (lOf n S Y).length + (lOf n S Y).length := by
    intro r hr; rw [hWeq, buildW_row _ _ _ _ r hr, hm, ← h]
  have hk : subK i = (lOf n S Y).length + (lOf n S Y).length := by
    unfold subK
    have h0 := hrow 0 hn
    cases hWc : i.W with
    | nil => rw [hWc] at hWl; simp at hWl; omega
    | cons r t =>
      rw [hWc] at h0
      simpa using h0
  have hMl : i.Minv.length = (lOf n S Y).length + (lOf n S Y).length := by rw [hMeq, buildMinv_length, hm]
  have hMrow : ∀ r, r < (lOf n S Y).length + (lOf n S Y).length →
      (i.Minv.getD r []).length = (lOf n S Y).length + (lOf n S Y).length := by
    intro r hr
    rw [hMeq, hm]
    apply buildMinv_rows
    rw [List.getD_eq_getElem?_getD, List.getElem?_eq_getElem (by rw [buildMinv_length, ← hm]; exact hr)]
    exact List.getElem_mem _
  have pd := kernel_model_pd n i.theta S Y hθ h hS hY hcurv Mm (by rw [← hMeq]; exact hM)
  rw [← hWeq] at pd
  exact C09.subspace_newton_point_pd i n _ Mm hx hg hxc hWl hrow hcl box (ne_of_gt hθ) uf hk hMl hMrow hM hc pd

end Lbfgsb.C10

/-! ### Non-vacuity (ℚ): one stored pair `s = (1, 0)`, `y = (2, 1)` in dimension 2, `θ = 1`: `M⁻¹ = diag(−2, 1)`, and the
theorem applies with `Mm = diag(−½, 1)`. -/
namespace Lbfgsb.C10
open Lbfgsb Matrix CompactKernel
section nonvacuous

def exS : List (Vec ℚ) := [[1, 0]]
def exY : List (Vec ℚ) := [[2, 1]]
def exMm : Matrix (Fin 2) (Fin 2) ℚ := Matrix.of fun a b => if a = b then (if a = 0 then -1 / 2 else 1) else 0

example : (lOf 2 exS exY).length + (lOf 2 exS exY).length = 2 := rfl

theorem ex_minv : buildMinv (1 : ℚ) exS exY = [[-2, 0], [0, 1]] := by decide +kernel

theorem ex_hM : exMm * wmat 2 2 (buildMinv (1 : ℚ) exS exY) = 1 := by
  rw [ex_minv]
  ext a b
  fin_cases a <;> fin_cases b <;> simp [exMm, wmat, Matrix.mul_apply, Fin.sum_univ_two]

example : SPD (bfgsChain ((1 : ℚ) • (1 : Matrix (Fin 2) (Fin 2) ℚ)) (pairsOf 2 exS exY)) :=
  (kernel_matrix_is_bfgs 2 1 exS exY one_pos rfl
    (by intro j hj; match j, hj with | 0, _ => rfl)
    (by intro j hj; match j, hj with | 0, _ => rfl)
    (by
      intro j hj
      match j, hj with
      | 0, _ =>
        refine ⟨fun e => ?_, ?_⟩
        · have := congrFun e 0
          simp [vec, exS] at this
        · simp [vec, exS, exY, dotProduct, Fin.sum_univ_two])
    exMm ex_hM).2

end nonvacuous
end Lbfgsb.C10
