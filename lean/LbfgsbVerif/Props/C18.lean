/-
  C18 — the returned inverse-Hessian operator is built from genuine curvature pairs.

  (U) about the driver model (`minimize`, fresh run, no objective redefinition; level U +
  `a·1 = a`), for the result and for every state handed to the callback:
    * `pairs_are_diffs`: there is a history `X, G` (equal lengths, at most `maxcor + 1` points)
      with `sk = diffs X`, `yk = diffs G` — consecutive differences in storage (chronological)
      order — in which every `G[i]` is the gradient the user's callable returns at `X[i]`
      (times the scaling factor): the pairs are differences of coherent (point, gradient)
      values, not of anything else;
    * `pairs_le_maxcor`: at most `maxcor` pairs;
    * `pairs_curvature`: every consecutive pair passed the curvature test `eps·y·y < s·y`
      when it entered, and nothing was inserted between them afterwards.
  (F) ordered field:
    * `curv_pos`: the test with `eps ≥ 0` gives `s·y > 0`;
    * `inv_bfgs_posdef` / `inv_bfgs_chain_posdef`: the inverse update
      `H⁺ = (I − ρ s yᵀ) H (I − ρ y sᵀ) + ρ s sᵀ`, `ρ = 1/(y·s)` — what `LbfgsInvHessProduct`
      applies pair by pair — keeps a symmetric positive definite `H` symmetric positive
      definite when `s·y > 0`: the operator is SPD for any list of positive-curvature pairs;
    * `diag_by_unit_vectors`: for every square matrix `H`, `(H e_i)_i = H_ii` — the
      diagonal utility's loop returns exactly the diagonal of the dense matrix.
  Restarts (pairs rebuilt from a checkpoint by subtraction: C06 theorems + rounding, finding
  K2) and redefinitions (C13 theorems about the filter) are decided by the correspondence
  (bit-exact replay of `sk, yk` of every result and callback state) and the monitors.
-/
import LbfgsbVerif.Proofs.C18
import LbfgsbVerif.Props.C05
import LbfgsbVerif.Proofs.C06
import LbfgsbVerif.Props.C10
import Mathlib.Data.Int.Order.Basic

namespace Lbfgsb.C18
open Lbfgsb

section U
variable {α ε δ : Type}
variable [LinearOrder α] [Add α] [Sub α] [Mul α] [Div α] [Neg α] [OfNat α 0] [OfNat α 1]
  [FloatLike α]

/-- master statement: the final driver state satisfies the memory invariant -/
theorem final_inv18 (u : User α ε) (o : Oracles α δ) (c : Cfg α) (hU : c.hasUpdate = false)
    (hmul1 : ∀ a : α, a * 1 = a) (hck : c.checkpoint = none) (hit : C05.Iterated u c)
    (r : Result α) (s : St α) (h : minimize u o c = .ok (r, s)) :
    Inv18 u c s.sf.scale 0 0 s ∧ r = s.result := by
  have hckOk : CkOk u c := fun ck hc => by rw [hck] at hc; cases hc
  have hcnt : cnt0 c = (0, 0) := by simp [cnt0, hck]
  obtain ⟨i0, hi0, ht0⟩ := hit
  unfold minimize at h
  simp only [bind, Except.bind] at h
  split at h
  · simp at h
  · rename_i i hi
    rw [hi0] at hi
    injection hi with hi
    subst hi
    have is := initEval_sum u c i0 hi0
    have i5 := initEval_c05 u c i0 hi0
    obtain ⟨hX0, hG0⟩ := initEval_fresh u c i0 hck hi0
    simp only [ht0, Bool.false_eq_true, if_false] at h
    split at h
    · simp at h
    · rename_i s0 hs0
      have inv0 := prepare_inv5 u c hU hmul1 hckOk i0 s0 is i5 hs0
      rw [hcnt] at inv0
      obtain ⟨hXs, hGs, hcbs⟩ := prepare_fresh u c hU i0 s0 hX0 hG0 hs0
      have inv18_0 : Inv18 u c s0.sf.scale 0 0 s0 :=
        ⟨inv0, by rw [hXs, hGs]; exact MemOk.single _ _ _ _ _ inv0.at_x.2, by simp [hcbs]⟩
      split at h
      · simp at h
      · rename_i s1 hs1
        simp only [pure, Except.pure] at h
        injection h with h; injection h with h1 h2
        have inv1 := mainLoop_inv18 u o c hU _ _ _ _ s0 s1 inv18_0 hs1
        have hcl : (classify c s1).sf = s1.sf ∧ (classify c s1).x = s1.x ∧ (classify c s1).f = s1.f ∧
            (classify c s1).g = s1.g ∧ (classify c s1).cbStates = s1.cbStates ∧
            (classify c s1).X = s1.X ∧ (classify c s1).G = s1.G := by
          unfold classify; repeat' split
          all_goals exact ⟨rfl, rfl, rfl, rfl, rfl, rfl, rfl⟩
        subst h2
        refine ⟨?_, h1.symm⟩
        obtain ⟨e1, e2, e3, e4, e5, e6, e7⟩ := hcl
        have hsc : s1.sf.scale = s0.sf.scale := inv1.i5.scale_eq
        rw [e1, hsc]
        refine ⟨⟨by rw [e1]; exact inv1.i5.lb_eq, by rw [e1]; exact inv1.i5.ub_eq,
          by rw [e1]; exact inv1.i5.mode_eq, by rw [e1]; exact inv1.i5.scale_eq,
          by rw [e1]; exact inv1.i5.coh, by rw [e2, e3, e4]; exact inv1.i5.at_x,
          by rw [e1]; exact inv1.i5.counted, by rw [e5]; exact inv1.i5.cbs⟩, ?_, ?_⟩
        · rw [e6, e7]; exact inv1.mem
        · rw [e5]; exact inv1.cbs

/-- what C18 says of one reported state -/
def PairsGenuine (u : User α ε) (c : Cfg α) (sc : α) (sk yk : List (Vec α)) : Prop :=
  ∃ X G : List (Vec α), sk = diffs X ∧ yk = diffs G ∧ X.length = G.length ∧
    X.length ≤ c.maxcor + 1 ∧
    (∀ p ∈ X.zip G, ∃ g0, gradSpec u.toSFUser c.lb c.ub c.mode p.1 = .ok g0 ∧ p.2 = vscale g0 sc) ∧
    CurvChain c.epsSY X G

theorem PairsGenuine.of_memOk {u : User α ε} {c : Cfg α} {sc : α} {X G : List (Vec α)}
    (h : MemOk c.maxcor c.epsSY (GradAt u c sc) X G) : PairsGenuine u c sc (diffs X) (diffs G) :=
  ⟨X, G, rfl, rfl, h.len, h.bound, h.good, h.chain⟩

/-- **C18 (1)** the pairs of the result, and of every callback state, are consecutive
differences of a stored history of coherent (point, user's gradient there × scale) values. -/
theorem pairs_are_diffs (u : User α ε) (o : Oracles α δ) (c : Cfg α) (hU : c.hasUpdate = false)
    (hmul1 : ∀ a : α, a * 1 = a) (hck : c.checkpoint = none) (hit : C05.Iterated u c)
    (r : Result α) (s : St α) (h : minimize u o c = .ok (r, s)) :
    PairsGenuine u c s.sf.scale r.sk r.yk ∧
    ∀ cb ∈ s.cbStates, PairsGenuine u c s.sf.scale cb.sk cb.yk := by
  obtain ⟨inv, hr⟩ := final_inv18 u o c hU hmul1 hck hit r s h
  subst hr
  refine ⟨PairsGenuine.of_memOk inv.mem, ?_⟩
  intro cb hcb
  obtain ⟨X, G, hm, h1, h2⟩ := inv.cbs cb hcb
  rw [h1, h2]
  exact PairsGenuine.of_memOk hm

omit [LinearOrder α] [Add α] [Mul α] [Div α] [Neg α] [OfNat α 0] [OfNat α 1] [FloatLike α] in
theorem diffs_le (X : List (Vec α)) (m : Nat) (h : X.length ≤ m + 1) : (diffs X).length ≤ m := by
  rw [diffs_length]; omega

/-- **C18 (2)** at most `maxcor` pairs, in the result and in every callback state. -/
theorem pairs_le_maxcor (u : User α ε) (o : Oracles α δ) (c : Cfg α) (hU : c.hasUpdate = false)
    (hmul1 : ∀ a : α, a * 1 = a) (hck : c.checkpoint = none) (hit : C05.Iterated u c)
    (r : Result α) (s : St α) (h : minimize u o c = .ok (r, s)) :
    (r.sk.length ≤ c.maxcor ∧ r.yk.length ≤ c.maxcor) ∧
    ∀ cb ∈ s.cbStates, cb.sk.length ≤ c.maxcor ∧ cb.yk.length ≤ c.maxcor := by
  obtain ⟨h1, h2⟩ := pairs_are_diffs u o c hU hmul1 hck hit r s h
  have key : ∀ sk yk, PairsGenuine u c s.sf.scale sk yk → sk.length ≤ c.maxcor ∧ yk.length ≤ c.maxcor := by
    rintro sk yk ⟨X, G, e1, e2, hl, hb, -, -⟩
    rw [e1, e2]
    exact ⟨diffs_le X _ hb, diffs_le G _ (by rw [← hl]; exact hb)⟩
  exact ⟨key _ _ h1, fun cb hcb => key _ _ (h2 cb hcb)⟩

/-- **C18 (3)** every consecutive pair of the result's history passed the curvature test. -/
theorem pairs_curvature (u : User α ε) (o : Oracles α δ) (c : Cfg α) (hU : c.hasUpdate = false)
    (hmul1 : ∀ a : α, a * 1 = a) (hck : c.checkpoint = none) (hit : C05.Iterated u c)
    (r : Result α) (s : St α) (h : minimize u o c = .ok (r, s)) :
    r.sk = diffs s.X ∧ r.yk = diffs s.G ∧ CurvChain c.epsSY s.X s.G := by
  obtain ⟨inv, hr⟩ := final_inv18 u o c hU hmul1 hck hit r s h
  subst hr
  exact ⟨rfl, rfl, inv.mem.chain⟩

end U

/-! ## (F) ordered field -/
section F
open Matrix
variable {n : Type} [Fintype n] [DecidableEq n]
variable {K : Type} [Field K] [LinearOrder K] [IsStrictOrderedRing K]

/-- **C18 (F1)** the curvature test with `eps ≥ 0` gives `s·y > 0`. -/
theorem curv_pos (eps : K) (he : 0 ≤ eps) (s y : n → K) (h : eps * (y ⬝ᵥ y) < s ⬝ᵥ y) :
    0 < s ⬝ᵥ y := by
  have : 0 ≤ y ⬝ᵥ y := by
    simp only [dotProduct]
    exact Finset.sum_nonneg (fun i _ => mul_self_nonneg (y i))
  have : 0 ≤ eps * (y ⬝ᵥ y) := mul_nonneg he this
  linarith

/-- the inverse BFGS update applied by `LbfgsInvHessProduct` for one pair -/
noncomputable def invBfgs (H : Matrix n n K) (s y : n → K) : Matrix n n K :=
  let ρ := 1 / (y ⬝ᵥ s)
  (1 - ρ • vecMulVec s y) * H * (1 - ρ • vecMulVec y s) + ρ • vecMulVec s s

theorem invBfgs_quad (H : Matrix n n K) (s y x : n → K) :
    x ⬝ᵥ (invBfgs H s y *ᵥ x) =
      (x - (1 / (y ⬝ᵥ s) * (s ⬝ᵥ x)) • y) ⬝ᵥ (H *ᵥ (x - (1 / (y ⬝ᵥ s) * (s ⬝ᵥ x)) • y))
        + (1 / (y ⬝ᵥ s)) * (s ⬝ᵥ x) ^ 2 := by
  have hV : (1 - (1 / (y ⬝ᵥ s)) • vecMulVec y s) *ᵥ x = x - (1 / (y ⬝ᵥ s) * (s ⬝ᵥ x)) • y := by
    rw [sub_mulVec, one_mulVec, smul_mulVec, vecMulVec_mulVec]
    congr 1
    rw [op_smul_eq_smul, smul_smul]
  have hVt : x ᵥ* (1 - (1 / (y ⬝ᵥ s)) • vecMulVec s y) = x - (1 / (y ⬝ᵥ s) * (s ⬝ᵥ x)) • y := by
    rw [vecMul_sub, vecMul_one, vecMul_smul, vecMul_vecMulVec]
    congr 1
    rw [smul_smul, dotProduct_comm x s]
  simp only [invBfgs, add_mulVec, dotProduct_add, smul_mulVec, vecMulVec_mulVec, dotProduct_smul]
  rw [← mulVec_mulVec, ← mulVec_mulVec, dotProduct_mulVec, hV, hVt]
  congr 1
  simp only [op_smul_eq_smul, dotProduct_smul, smul_eq_mul, dotProduct_comm x s]
  ring

theorem invBfgs_symm (H : Matrix n n K) (hH : Hᵀ = H) (s y : n → K) :
    (invBfgs H s y)ᵀ = invBfgs H s y := by
  simp only [invBfgs, transpose_add, transpose_mul, transpose_sub, transpose_one, transpose_smul,
    transpose_vecMulVec, hH, Matrix.mul_assoc]

/-- **C18 (F2)** one inverse update keeps `H` symmetric positive definite when `s·y > 0`. -/
theorem inv_bfgs_posdef (H : Matrix n n K) (hH : C10.SPD H) (s y : n → K) (hsy : 0 < s ⬝ᵥ y) :
    C10.SPD (invBfgs H s y) := by
  refine ⟨invBfgs_symm H hH.1 s y, ?_⟩
  intro x hx
  rw [invBfgs_quad]
  have hys : 0 < y ⬝ᵥ s := by rw [dotProduct_comm]; exact hsy
  have hρ : 0 < 1 / (y ⬝ᵥ s) := by positivity
  by_cases hz : x - (1 / (y ⬝ᵥ s) * (s ⬝ᵥ x)) • y = 0
  · rw [hz]
    simp only [mulVec_zero, dotProduct_zero, zero_add]
    have hsx : s ⬝ᵥ x ≠ 0 := by
      intro h0
      apply hx
      rw [h0, mul_zero, zero_smul, sub_zero] at hz
      exact hz
    positivity
  · have h1 := hH.2 _ hz
    have h2 : 0 ≤ 1 / (y ⬝ᵥ s) * (s ⬝ᵥ x) ^ 2 := by positivity
    linarith

/-- the dense operator of a list of pairs, oldest first -/
noncomputable def invChain (H : Matrix n n K) : List ((n → K) × (n → K)) → Matrix n n K
  | [] => H
  | p :: ps => invChain (invBfgs H p.1 p.2) ps

/-- **C18 (F3)** the operator built from any list of pairs with `s·y > 0` on an SPD initial
matrix (SciPy uses the identity) is symmetric positive definite. -/
theorem inv_bfgs_chain_posdef (H : Matrix n n K) (hH : C10.SPD H) (ps : List ((n → K) × (n → K)))
    (hp : ∀ p ∈ ps, 0 < p.1 ⬝ᵥ p.2) : C10.SPD (invChain H ps) := by
  induction ps generalizing H with
  | nil => exact hH
  | cons p ps ih =>
    simp only [invChain]
    exact ih _ (inv_bfgs_posdef H hH p.1 p.2 (hp p (List.mem_cons_self ..)))
      (fun q hq => hp q (List.mem_cons_of_mem _ hq))

/-- **C18 (F4)** `extract_hess_inv_diag`: the `i`-th component of the product with the `i`-th
unit vector is the `i`-th diagonal entry of the dense matrix — for every square matrix. -/
theorem diag_by_unit_vectors (H : Matrix n n K) (i : n) : (H *ᵥ Pi.single i 1) i = H i i := by
  rw [mulVec_single_one]
  rfl

end F

/-! ### Non-vacuity -/
section nonvacuous
/-- a chain over ℤ: X = 0, 1, 3 and G = 0, 2, 5 in dimension 1 with eps = 0: s·y = 2, 6 > 0 -/
example : CurvChain (0 : Int) [[0], [1], [3]] [[0], [2], [5]] := by
  simp [CurvChain, curvOk, vsub, vzip, dot]

example : MemOk 2 (0 : Int) (fun _ _ => True) [[0], [1], [3]] [[0], [2], [5]] :=
  ⟨rfl, by simp, by simp, fun _ _ => trivial, by simp [CurvChain, curvOk, vsub, vzip, dot]⟩

/-- the concrete run of the C05 example meets the hypotheses, and ends with two pairs:
iterates (3,2) → (2,1) → (1,0), gradients 3·2x -/
example : C05.Iterated C05.uZ C05.cZ ∧ C05.cZ.checkpoint = none ∧ C05.cZ.hasUpdate = false :=
  ⟨⟨_, rfl, by decide⟩, rfl, rfl⟩

example : ∃ r s, minimize C05.uZ C05.oZ C05.cZ = .ok (r, s) ∧ r.sk = [[-1, -1], [-1, -1]] ∧
    r.yk = [[-6, -6], [-6, -6]] := by
  refine ⟨_, _, rfl, ?_⟩
  decide
end nonvacuous

end Lbfgsb.C18
