/-
  C05 — result coherence: `fun` and `jac` belong to `x`; counters equal the calls made.

  Level U + the IEEE-exact law `a * 1 = a` (explicit hypothesis `hmul1`). Values are *terms*:
  "bit for bit the value the user's function produces at the returned x times the scaling
  factor" is the statement `r.f = v * scale` with `u.F r.x = .ok v`.

  Excluded by hypothesis (`CkOk`): a checkpoint together with a gradient scaler — the recorded
  finding K1 (values scaled twice). An update function (objective redefined on the fly) is
  outside this property (`hasUpdate = false`): C13 covers it.
-/
import LbfgsbVerif.Proofs.C05
import Mathlib.Data.Int.Order.Basic

namespace Lbfgsb.C05
open Lbfgsb
variable {α ε δ : Type}
variable [LinearOrder α] [Add α] [Sub α] [Mul α] [Div α] [Neg α] [OfNat α 0] [OfNat α 1]
  [FloatLike α]

/-- the run went through the loop (it did not stop at once on the target): then at least one
gradient has been computed (or inherited from the checkpoint) -/
def Iterated (u : User α ε) (c : Cfg α) : Prop :=
  ∃ i, initEval u c = .ok i ∧ targetReached (i.f0 / i.sf.scale) i.ftarget = false

/-- master statement: the final driver state satisfies the coherence/counting invariant -/
theorem final_inv (u : User α ε) (o : Oracles α δ) (c : Cfg α) (hU : c.hasUpdate = false)
    (hmul1 : ∀ a : α, a * 1 = a) (hck : CkOk u c) (hit : Iterated u c)
    (r : Result α) (s : St α) (h : minimize u o c = .ok (r, s)) :
    Inv5 u c s.sf.scale (cnt0 c).1 (cnt0 c).2 s ∧ r = s.result := by
  obtain ⟨i0, hi0, ht0⟩ := hit
  unfold minimize at h
  simp only [bind, Except.bind] at h
  split at h
  · simp at h
  · rename_i i hi
    rw [hi0] at hi
    injection hi with hi
    subst hi
    have is := initEval_sum u c i0 hi0
    have i5 := initEval_c05 u c i0 hi0
    simp only [ht0, Bool.false_eq_true, if_false] at h
    split at h
    · simp at h
    · rename_i s0 hs0
      have inv0 := prepare_inv5 u c hU hmul1 hck i0 s0 is i5 hs0
      split at h
      · simp at h
      · rename_i s1 hs1
        simp only [pure, Except.pure] at h
        injection h with h; injection h with h1 h2
        have inv1 := mainLoop_inv5 u o c hU _ _ _ _ s0 s1 inv0 hs1
        have hcl : (classify c s1).sf = s1.sf ∧ (classify c s1).x = s1.x ∧ (classify c s1).f = s1.f ∧
            (classify c s1).g = s1.g ∧ (classify c s1).cbStates = s1.cbStates := by
          unfold classify; repeat' split
          all_goals exact ⟨rfl, rfl, rfl, rfl, rfl⟩
        subst h2
        refine ⟨?_, h1.symm⟩
        obtain ⟨e1, e2, e3, e4, e5⟩ := hcl
        have hsc : s1.sf.scale = s0.sf.scale := inv1.scale_eq
        rw [e1, hsc]
        exact ⟨by rw [e1]; exact inv1.lb_eq, by rw [e1]; exact inv1.ub_eq, by rw [e1]; exact inv1.mode_eq,
          by rw [e1]; exact inv1.scale_eq, by rw [e1]; exact inv1.coh,
          by rw [e2, e3, e4]; exact inv1.at_x, by rw [e1]; exact inv1.counted,
          by rw [e5]; exact inv1.cbs⟩

/-- **C05 (1) — result coherence.** `fun` is the user's objective at the returned `x` times
the scaling factor, and `jac` the gradient at the returned `x` times the scaling factor (the
user's gradient; for differencing modes the finite-difference gradient at `x`). -/
theorem result_coherent (u : User α ε) (o : Oracles α δ) (c : Cfg α) (hU : c.hasUpdate = false)
    (hmul1 : ∀ a : α, a * 1 = a) (hck : CkOk u c) (hit : Iterated u c)
    (r : Result α) (s : St α) (h : minimize u o c = .ok (r, s)) :
    (∃ v, u.F r.x = .ok v ∧ r.f = v * s.sf.scale) ∧
    (∃ g0, gradSpec u.toSFUser c.lb c.ub c.mode r.x = .ok g0 ∧ r.jac = vscale g0 s.sf.scale) := by
  obtain ⟨inv, hr⟩ := final_inv u o c hU hmul1 hck hit r s h
  subst hr
  exact inv.at_x

/-- **C05 (2)** the same holds for every state passed to the callback. -/
theorem callback_coherent (u : User α ε) (o : Oracles α δ) (c : Cfg α) (hU : c.hasUpdate = false)
    (hmul1 : ∀ a : α, a * 1 = a) (hck : CkOk u c) (hit : Iterated u c)
    (r : Result α) (s : St α) (h : minimize u o c = .ok (r, s)) :
    ∀ cb ∈ s.cbStates,
      (∃ v, u.F cb.x = .ok v ∧ cb.f = v * s.sf.scale) ∧
      (∃ g0, gradSpec u.toSFUser c.lb c.ub c.mode cb.x = .ok g0 ∧ cb.jac = vscale g0 s.sf.scale) :=
  (final_inv u o c hU hmul1 hck hit r s h).1.cbs

/-- **C05 (3) — counters equal calls.** `nfev` is the number of objective calls in the log
(stencil evaluations included) plus the checkpoint's count, and with a callable gradient
`njev` the number of gradient calls plus the checkpoint's count. -/
theorem counters_eq_log (u : User α ε) (o : Oracles α δ) (c : Cfg α) (hU : c.hasUpdate = false)
    (hmul1 : ∀ a : α, a * 1 = a) (hck : CkOk u c) (hit : Iterated u c)
    (r : Result α) (s : St α) (h : minimize u o c = .ok (r, s)) :
    r.nfev = (cnt0 c).1 + nF s.sf.log ∧
    (c.mode = .callable → r.njev = (cnt0 c).2 + nG s.sf.log) := by
  obtain ⟨inv, hr⟩ := final_inv u o c hU hmul1 hck hit r s h
  subst hr
  exact ⟨inv.counted.1, fun hm => inv.counted.2 (by rw [inv.mode_eq]; exact hm)⟩

/-- **C05 (4) — chains of restarts.** The result of a coherent unscaled run is an acceptable
checkpoint for the next leg (same problem, no scaler): coherence and counting propagate
through chains of restarts by induction on the chain. -/
theorem result_is_ok_checkpoint (u : User α ε) (o : Oracles α δ) (c : Cfg α)
    (hU : c.hasUpdate = false)
    (hmul1 : ∀ a : α, a * 1 = a) (hck : CkOk u c) (hit : Iterated u c)
    (r : Result α) (s : St α) (h : minimize u o c = .ok (r, s)) (hsc : s.sf.scale = 1)
    (c' : Cfg α) (hc' : c'.checkpoint = some r) (hx : r.x = clip c'.x0 c'.lb c'.ub)
    (hb : c'.lb = c.lb ∧ c'.ub = c.ub ∧ c'.mode = c.mode) (hS' : c'.hasScaler = false) :
    CkOk u c' := by
  intro ck hck'
  rw [hc'] at hck'
  injection hck' with hck'
  subst hck'
  have := result_coherent u o c hU hmul1 hck hit r s h
  rw [hsc] at this
  refine ⟨hS', hx, ?_⟩
  unfold CohAt
  rw [hb.1, hb.2.1, hb.2.2]
  exact this

/-! ### Non-vacuity -/
section nonvacuous
instance : FloatLike ℤ := ⟨id, fun _ => true⟩

def uZ : User ℤ String where
  F x := .ok (dot x x)
  Gr x := .ok (smul 2 x)
  fdPts _ _ := []
  fdComb _ _ _ := []
  callback _ := .ok false
  update i := .ok ⟨i.f0, i.f0Old, i.grad, i.G⟩
  scaler _ _ := .ok 3
  ftargetFn _ := .ok (-5)
  gtolFn _ := .ok 0

def oZ : Oracles ℤ Nat where
  xbar x _ _ := x.map (· - 1)
  dcNew _ _ _ _ _ _ := 0
  dcIter n stp _ _ _ := if n = 0 then (1, stp, .fg) else (n + 1, stp, .conv)

def cZ : Cfg ℤ :=
  { x0 := [3, 2], lb := [-10, -10], ub := [10, 10], mode := .callable, maxcor := 3, maxiter := 2,
    maxfun := 20, maxls := 4, ftol := 0, gtol := .const 0, ftarget := none, maxStep := 100,
    ftolLS := 0, gtolLS := 1, xtolLS := 0, epsSY := 0, hasCallback := true, hasUpdate := false,
    hasScaler := true, checkpoint := none }

example : Iterated uZ cZ := ⟨_, rfl, by decide⟩
example : CkOk uZ cZ := by intro ck h; cases h
example : ∀ a : ℤ, a * 1 = a := Int.mul_one

/-- a scaled run (factor 3): two iterations, `fun = 3·F(x)`, `jac = 3·∇F(x)`, three objective
and three gradient calls -/
example : ∃ r s, minimize uZ oZ cZ = .ok (r, s) ∧ r.x = [1, 0] ∧ r.f = 3 ∧ r.jac = [6, 0] ∧
    r.nfev = 3 ∧ r.njev = 3 := by
  refine ⟨_, _, rfl, ?_⟩
  decide

end nonvacuous

end Lbfgsb.C05
