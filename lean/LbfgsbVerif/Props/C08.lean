/-
  C08 — the Cauchy point is the first local minimiser along the projected path.

  What is a theorem about the executable model `cauchy` (Model/Cauchy.lean):
  * `order_sorted` (U): the breakpoints are processed in non-decreasing order of `t`
    (`none` = +∞ last) — the statement whose violation was the defect repaired by the first
    fix ("order Cauchy breakpoints before filtering…");
  * `order_positive` (U): the processed indices are exactly the indices with `t > 0`, each once;
  * `gcp_in_box` (U): whatever the memory, the returned point satisfies `lb ≤ x_cp ≤ ub`
    exactly (it is a `clip`, or `x` itself).
  That the returned point is the *first local minimiser* of the model along the path, that
  reached variables are pinned and that `c = Wᵀ(x_cp − x)` is decided by the correspondence
  (implementation vs this model at Float vs an independent brute-force minimisation over the
  sorted segments with the dense matrix; exhaustive structural enumeration for small n).
-/
import LbfgsbVerif.Model.Cauchy
import LbfgsbVerif.Proofs.Basic
import Mathlib.Data.Int.Order.Basic

namespace Lbfgsb.C08
open Lbfgsb
variable {α : Type} [LinearOrder α] [Add α] [Sub α] [Mul α] [Div α] [Neg α] [OfNat α 0] [OfNat α 1]

theorem bpLe_trans (a b c : Option α) (h1 : bpLe a b = true) (h2 : bpLe b c = true) :
    bpLe a c = true := by
  cases a <;> cases b <;> cases c <;> simp_all [bpLe]
  exact le_trans h1 h2

theorem bpLe_total (a b : Option α) : (bpLe a b || bpLe b a) = true := by
  cases a <;> cases b <;> simp [bpLe]
  exact le_total _ _

/-- **C08 (1)** breakpoints are processed in non-decreasing order. -/
theorem order_sorted (t : List (Option α)) :
    (bpOrder t).Pairwise fun i j => bpLe (t.getD i none) (t.getD j none) = true := by
  unfold bpOrder
  exact List.pairwise_mergeSort (le := fun i j => bpLe (t.getD i none) (t.getD j none))
    (fun a b c => bpLe_trans _ _ _) (fun a b => bpLe_total _ _) _

/-- **C08 (2)** the processed indices are exactly the indices whose breakpoint is positive. -/
theorem order_positive (t : List (Option α)) (i : Nat) :
    i ∈ bpOrder t ↔ (i < t.length ∧ bpPos (t.getD i none) = true) := by
  unfold bpOrder
  rw [(List.mergeSort_perm _ _).mem_iff]
  simp [List.mem_filter]

/-- …each exactly once -/
theorem order_nodup (t : List (Option α)) : (bpOrder t).Nodup := by
  unfold bpOrder
  exact (List.mergeSort_perm _ _).nodup_iff.2 (List.nodup_range.sublist List.filter_sublist)

theorem breakpoints_length (x g lb ub : Vec α) (h1 : g.length = x.length) (h2 : lb.length = x.length)
    (h3 : ub.length = x.length) : (breakpoints x g lb ub).length = x.length := by
  induction x generalizing g lb ub with
  | nil => simp [breakpoints]
  | cons a as ih =>
    cases g with
    | nil => simp at h1
    | cons b bs =>
      cases lb with
      | nil => simp at h2
      | cons l ls =>
        cases ub with
        | nil => simp at h3
        | cons u' us =>
          simp only [breakpoints, List.length_cons]
          rw [ih bs ls us (by simpa using h1) (by simpa using h2) (by simpa using h3)]

theorem cauchyD0_length (t : List (Option α)) (g : Vec α) (h : t.length = g.length) :
    (cauchyD0 t g).length = g.length := by
  induction t generalizing g with
  | nil => cases g <;> simp_all [cauchyD0]
  | cons a as ih =>
    cases g with
    | nil => simp at h
    | cons b bs => simp only [cauchyD0, List.length_cons]; rw [ih bs (by simpa using h)]

theorem cauchyStep_lengths (i : CauchyIn α) (t : List (Option α)) (f2org : α) (s : CauchySt α) (ib : Nat) :
    (cauchyStep i t f2org s ib).xcp.length = s.xcp.length ∧
    (cauchyStep i t f2org s ib).d.length = s.d.length := by
  unfold cauchyStep
  split
  · exact ⟨rfl, rfl⟩
  · split
    · exact ⟨rfl, rfl⟩
    · simp only
      split
      · exact ⟨rfl, rfl⟩
      · simp

theorem fold_lengths (i : CauchyIn α) (t : List (Option α)) (f2org : α) (order : List Nat)
    (s0 : CauchySt α) :
    (order.foldl (cauchyStep i t f2org) s0).xcp.length = s0.xcp.length ∧
    (order.foldl (cauchyStep i t f2org) s0).d.length = s0.d.length := by
  induction order generalizing s0 with
  | nil => exact ⟨rfl, rfl⟩
  | cons a as ih =>
    simp only [List.foldl_cons]
    obtain ⟨h1, h2⟩ := ih (cauchyStep i t f2org s0 a)
    obtain ⟨h3, h4⟩ := cauchyStep_lengths i t f2org s0 a
    exact ⟨by rw [h1, h3], by rw [h2, h4]⟩

theorem final_length (i : CauchyIn α) (t : List (Option α)) (f2org a : α) (order : List Nat)
    (s0 : CauchySt α) (n : Nat) (h1 : s0.xcp.length = n) (h2 : s0.d.length = n) :
    (vadd (order.foldl (cauchyStep i t f2org) s0).xcp
      (smul a (order.foldl (cauchyStep i t f2org) s0).d)).length = n := by
  obtain ⟨e1, e2⟩ := fold_lengths i t f2org order s0
  simp only [vadd, smul, vzip_length', List.length_map, e1, e2, h1, h2, Nat.min_self]

/-- **C08 (3)** the returned point is in the box, exactly — for every memory (every `W`,
`M⁻¹`, `theta`), every rounding of the arithmetic: it is `x` itself (no breakpoint) or the
value of a `clip`. -/
theorem gcp_in_box (i : CauchyIn α) (hb : BoxOk i.lb i.ub) (hx : InBox i.lb i.ub i.x)
    (hg : i.g.length = i.x.length) : InBox i.lb i.ub (cauchy i).1 := by
  obtain ⟨hxl, hul⟩ := inBox_length hx
  unfold cauchy
  simp only
  split
  · exact hx
  · apply clip_inBox hb
    have hd0 : (cauchyD0 (breakpoints i.x i.g i.lb i.ub) i.g).length = i.x.length := by
      rw [cauchyD0_length _ _ (by rw [breakpoints_length _ _ _ _ hg hxl.symm (by rw [hul, hxl]), hg]), hg]
    rw [← hxl]
    apply final_length
    · rfl
    · exact hd0

/-! ### Non-vacuity: over `ℚ`-free integers… the structural facts on a concrete instance. -/
section nonvacuous
example : (bpOrder ([some 3, some 0, none, some 1] : List (Option Int))).Nodup ∧
    (3 ∈ bpOrder ([some 3, some 0, none, some 1] : List (Option Int))) ∧
    (1 ∉ bpOrder ([some 3, some 0, none, some 1] : List (Option Int))) := by
  refine ⟨order_nodup _, (order_positive _ _).2 ⟨by decide, by decide⟩, fun h => ?_⟩
  have := ((order_positive _ _).1 h).2
  revert this; decide
end nonvacuous

end Lbfgsb.C08
