/-
  C13 / C18 — the memory of a run WITH objective redefinitions (level U, whole-driver invariant,
  Proofs/MemCurv.lean).

  Whatever the update function returns for the stored gradients — as many as it was given —, the
  result of a fresh run and every state handed to the callback carry correction pairs
  `sk = diffs X`, `yk = diffs G` of a history `X, G` that is non-empty, has at most `maxcor + 1`
  points (at most `maxcor` pairs), and in which EVERY consecutive pair passes the curvature test
  `eps·y·y < s·y` — the test the package evaluates, in the orientation of the history filter.
  (`hsym`: the test does not depend on the order of its two points — C13 `curv_test_symmetric`
  in every commutative ring, and an IEEE-exact law.)
-/
import LbfgsbVerif.Proofs.MemCurv
import LbfgsbVerif.Proofs.C11
import Mathlib.Algebra.Order.Field.Rat

namespace Lbfgsb.C13
open Lbfgsb
variable {α ε δ : Type}
variable [LinearOrder α] [Add α] [Sub α] [Mul α] [Div α] [Neg α] [OfNat α 0] [OfNat α 1] [FloatLike α]

/-- **C13 (run level)** every retained pair satisfies the curvature condition, after any number
of redefinitions of the objective -/
theorem redefinition_pairs_curvature (u : User α ε) (o : Oracles α δ) (c : Cfg α)
    (hu : ∀ (i : UpdIn α) r, u.update i = .ok r → r.G.length = i.G.length)
    (hsym : ∀ x g x' g' : Vec α, curvOk x g x' g' c.epsSY = curvOk x' g' x g c.epsSY)
    (hck : c.checkpoint = none) (r : Result α) (s : St α) (h : minimize u o c = .ok (r, s)) :
    (∃ X G : List (Vec α), r.sk = diffs X ∧ r.yk = diffs G ∧ X.length = G.length ∧ X ≠ [] ∧
      PairsOk c.epsSY X G ∧ X.length ≤ c.maxcor + 1) ∧
    ∀ cb ∈ s.cbStates, ∃ X G : List (Vec α), cb.sk = diffs X ∧ cb.yk = diffs G ∧ X.length = G.length ∧
      X ≠ [] ∧ PairsOk c.epsSY X G ∧ X.length ≤ c.maxcor + 1 :=
  minimize_memC u o hu c hsym hck r s h

end Lbfgsb.C13

/-! ### Non-vacuity (ℚ): f(x) = ½|x|² on [−2,2]², an update function that rescales the stored gradients,
kernels that propose the minimiser and a stepper that accepts the unit step: the run performs
iterations and terminates normally, and the hypotheses of the theorem hold (`hsym` by
`curv_test_symmetric`, the update function preserves the number of gradients). -/
namespace Lbfgsb.C13
open Lbfgsb
section nonvacuous
attribute [local instance] fieldFloatLike

def exUser : User ℚ Unit :=
  { F := fun x => .ok (dot x x / 2), Gr := fun x => .ok x, fdPts := fun _ _ => [], fdComb := fun x _ _ => x,
    callback := fun _ => .ok false,
    update := fun i => .ok ⟨i.f0, i.f0Old, i.grad, i.G.map fun g => smul 2 g⟩,
    scaler := fun _ _ => .ok 1, ftargetFn := fun _ => .ok 0, gtolFn := fun _ => .ok 0 }

def exOracles : Oracles ℚ Unit :=
  { xbar := fun x _ _ => smul (1 / 2) x, dcNew := fun _ _ _ _ _ _ => (),
    dcIter := fun _ stp _ _ task => match task with | .start => ((), 1, .fg) | _ => ((), stp, .conv) }

def exCfg : Cfg ℚ :=
  { x0 := [1, 1], lb := [-2, -2], ub := [2, 2], mode := .callable, maxcor := 2, maxiter := 3, maxfun := 100, maxls := 20,
    ftol := 0, gtol := .const (1 / 1000), ftarget := none, maxStep := 100, ftolLS := 1 / 1000, gtolLS := 9 / 10, xtolLS := 1 / 10,
    epsSY := 0, hasCallback := true, hasUpdate := true, hasScaler := false, checkpoint := none }

/-- the run terminates normally, after three iterations, with two pairs -/
example : (match minimize exUser exOracles exCfg with
    | .ok (r, s) => decide (r.nit = 3 ∧ r.sk.length = 2 ∧ s.cbStates.length = 3) | .error _ => false) = true := by
  decide +kernel

example : ∀ (i : UpdIn ℚ) r, exUser.update i = .ok r → r.G.length = i.G.length := by
  intro i r h
  simp only [exUser, Except.ok.injEq] at h
  rw [← h]; simp

end nonvacuous
end Lbfgsb.C13
