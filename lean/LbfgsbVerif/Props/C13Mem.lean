/-
  C13 / C18 — the memory of a run WITH objective redefinitions (level U, whole-driver invariant,
  Proofs/MemCurv.lean).

  Whatever the update function returns for the stored gradients — as many as it was given —, the
  result of a fresh run and every state handed to the callback carry correction pairs
  `sk = diffs X`, `yk = diffs G` of a history `X, G` that is non-empty, has at most `maxcor + 1`
  points (at most `maxcor` pairs), and in which EVERY consecutive pair passes the curvature test
  `eps·y·y < s·y` — the test the package evaluates, in the orientation of the history filter.
  (`hsym`: the test does not depend on the order of its two points — C13 `curv_test_symmetric`
  in every commutative ring, and an IEEE-exact law.)
-/
import LbfgsbVerif.Proofs.MemCurv

namespace Lbfgsb.C13
open Lbfgsb
variable {α ε δ : Type}
variable [LinearOrder α] [Add α] [Sub α] [Mul α] [Div α] [Neg α] [OfNat α 0] [OfNat α 1] [FloatLike α]

/-- **C13 (run level)** every retained pair satisfies the curvature condition, after any number
of redefinitions of the objective -/
theorem redefinition_pairs_curvature (u : User α ε) (o : Oracles α δ) (c : Cfg α)
    (hu : ∀ (i : UpdIn α) r, u.update i = .ok r → r.G.length = i.G.length)
    (hsym : ∀ x g x' g' : Vec α, curvOk x g x' g' c.epsSY = curvOk x' g' x g c.epsSY)
    (hck : c.checkpoint = none) (r : Result α) (s : St α) (h : minimize u o c = .ok (r, s)) :
    (∃ X G : List (Vec α), r.sk = diffs X ∧ r.yk = diffs G ∧ X.length = G.length ∧ X ≠ [] ∧
      PairsOk c.epsSY X G ∧ X.length ≤ c.maxcor + 1) ∧
    ∀ cb ∈ s.cbStates, ∃ X G : List (Vec α), cb.sk = diffs X ∧ cb.yk = diffs G ∧ X.length = G.length ∧
      X ≠ [] ∧ PairsOk c.epsSY X G ∧ X.length ≤ c.maxcor + 1 :=
  minimize_memC u o hu c hsym hck r s h

end Lbfgsb.C13
