/-
  C17 in the finite-difference modes (level F, exact arithmetic): the finite-difference gradient of
  the scaled objective `s·f` is `s` times the finite-difference gradient of `f` — same stencil
  (the points do not depend on the values), values multiplied by `s`. Together with C17
  `scaler_equivalence` (callable gradient, any arithmetic) this is why a scaler and an explicitly
  scaled objective are equivalent in exact arithmetic in every gradient mode; in floating point
  `s·FD(f)` and `FD(s·f)` differ by rounding, which the paired runs bound.
-/
import LbfgsbVerif.Model.FD
import Mathlib.Algebra.Order.Field.Basic
import Mathlib.Tactic.Ring
import Mathlib.Tactic.FieldSimp

namespace Lbfgsb.C17
open Lbfgsb Lbfgsb.FD
variable {K : Type} [Field K] [LinearOrder K] [IsStrictOrderedRing K]

theorem deriv1_linear (s : Scheme) (x h lb ub f0 c : K) (vals : List K) :
    deriv1 s x h lb ub (c * f0) (vals.map (c * ·)) = c * deriv1 s x h lb ub f0 vals := by
  cases s with
  | two =>
    match vals with
    | [] => simp [deriv1]
    | [f1] => simp only [deriv1, List.map_cons, List.map_nil]; ring
    | _ :: _ :: _ => simp [deriv1]
  | three =>
    match vals with
    | [] => simp [deriv1]
    | [_] => simp [deriv1]
    | [f1, f2] =>
      simp only [deriv1, List.map_cons, List.map_nil]
      split <;> ring
    | _ :: _ :: _ :: _ => simp [deriv1]

theorem gradGo_linear (s : Scheme) (hOf : K → K) (f0 c : K) (k : Nat) (xs : List K) :
    ∀ (ls us vals : List K),
      grad.go s hOf (c * f0) k xs ls us (vals.map (c * ·)) = (grad.go s hOf f0 k xs ls us vals).map (c * ·) := by
  induction xs with
  | nil => intro ls us vals; simp [grad.go]
  | cons xi xs ih =>
    intro ls us vals
    cases ls with
    | nil => simp [grad.go]
    | cons li ls' =>
      cases us with
      | nil => simp [grad.go]
      | cons ui us' =>
        simp only [grad.go, List.map_cons]
        rw [← List.map_take, ← List.map_drop, deriv1_linear, ih]
        congr 1
        split
        · simp
        · rfl

/-- **C17 (FD modes, exact arithmetic)** `FD(s·f) = s·FD(f)` -/
theorem fd_scaling_linear (s : Scheme) (hOf : K → K) (x lb ub : Vec K) (f0 c : K) (vals : List K) :
    grad s hOf x lb ub (c * f0) (vals.map (c * ·)) = (grad s hOf x lb ub f0 vals).map (c * ·) := by
  unfold grad
  exact gradGo_linear s hOf f0 c _ x lb ub vals

end Lbfgsb.C17
