/-
  C19 — each packaged benchmark gradient is the gradient of its benchmark function.

  Level R (real analysis, Mathlib). The definitions `Generated.Bench.*` are REGENERATED from
  /repo/lbfgsb/benchmarks.py on every run by translate/bench2lean.py, so these theorems are
  re-checked against what the source says now. For every pair `(f, f_grad)`, every dimension
  `n` the function accepts, every point `x` of the domain and every coordinate `k < n`:

      HasDerivAt (fun t => f n (Function.update x k t)) (f_grad n x k) (x k)

  i.e. the `k`-th component of the exported gradient is the partial derivative of the exported
  function — the exact statement of which "agrees with a high-order numerical derivative" is
  the observable shadow. Domains: Ackley needs `∑ xᵢ² ≠ 0` (the code divides by it), Griewank
  needs `cos(x_k/√(k+1)) ≠ 0` (the code divides by it); the others are unrestricted.
-/
import LbfgsbVerif.Generated.Bench
import LbfgsbVerif.Proofs.Deriv

namespace Lbfgsb.C19
open Lbfgsb.Generated.Bench Lbfgsb.Deriv Finset

theorem sphere_deriv (n k : ℕ) (hk : k < n) (x : ℕ → ℝ) :
    HasDerivAt (fun t => sphere n (Function.update x k t)) (sphere_grad n x k) (x k) := by
  unfold sphere sphere_grad
  refine (sum_separable n k hk x (fun _ y => y ^ 2) _ (hasDerivAt_pow 2 (x k))).congr_deriv ?_
  norm_num

theorem quartic_deriv (n k : ℕ) (hk : k < n) (x : ℕ → ℝ) :
    HasDerivAt (fun t => quartic n (Function.update x k t)) (quartic_grad n x k) (x k) := by
  unfold quartic quartic_grad
  refine (sum_separable n k hk x (fun i y => (((i : ℕ) : ℝ) + 1) * y ^ 4) _
    ((hasDerivAt_pow 4 (x k)).const_mul _)).congr_deriv ?_
  norm_num
  ring

theorem styblinski_tang_deriv (n k : ℕ) (hk : k < n) (x : ℕ → ℝ) :
    HasDerivAt (fun t => styblinski_tang n (Function.update x k t)) (styblinski_tang_grad n x k)
      (x k) := by
  unfold styblinski_tang styblinski_tang_grad
  have hterm : HasDerivAt (fun y : ℝ => y ^ 4 - 16 * y ^ 2 + 5 * y)
      (4 * x k ^ 3 - 16 * (2 * x k) + 5) (x k) := by
    have h := (((hasDerivAt_pow 4 (x k)).fun_sub ((hasDerivAt_pow 2 (x k)).const_mul 16)).fun_add
      ((hasDerivAt_id' (x k)).const_mul 5))
    refine h.congr_deriv ?_
    norm_num
  have hsum := sum_separable n k hk x (fun _ y => y ^ 4 - 16 * y ^ 2 + 5 * y) _ hterm
  refine ((hsum.const_mul (0.5 : ℝ)).add_const _).congr_deriv ?_
  norm_num
  ring

theorem rastrigin_deriv (n k : ℕ) (hk : k < n) (x : ℕ → ℝ) :
    HasDerivAt (fun t => rastrigin n (Function.update x k t)) (rastrigin_grad n x k) (x k) := by
  unfold rastrigin rastrigin_grad
  have hcos : HasDerivAt (fun y : ℝ => Real.cos (2 * Real.pi * y))
      (-Real.sin (2 * Real.pi * x k) * (2 * Real.pi)) (x k) := by
    have h := ((hasDerivAt_id' (x k)).const_mul (2 * Real.pi)).cos
    refine h.congr_deriv ?_
    simp
  have hterm : HasDerivAt (fun y : ℝ => y ^ 2 - 10 * Real.cos (2 * Real.pi * y))
      (2 * x k - 10 * (-Real.sin (2 * Real.pi * x k) * (2 * Real.pi))) (x k) := by
    have h := (hasDerivAt_pow 2 (x k)).fun_sub (hcos.const_mul 10)
    refine h.congr_deriv ?_
    norm_num
  have hsum := sum_separable n k hk x (fun _ y => y ^ 2 - 10 * Real.cos (2 * Real.pi * y)) _ hterm
  refine (hsum.const_add _).congr_deriv ?_
  ring

theorem rosenbrock_deriv (n k : ℕ) (hk : k < n) (x : ℕ → ℝ) :
    HasDerivAt (fun t => rosenbrock n (Function.update x k t)) (rosenbrock_grad n x k) (x k) := by
  unfold rosenbrock rosenbrock_grad
  -- first sum: terms (x(i+1) - x(i)^2)^2
  have h1 := sum_chained (n - 1) k x (fun _ a b => (b - a ^ 2) ^ 2)
    (fun i => 2 * (x (i + 1) - x i ^ 2) * (-(2 * x i)))
    (fun i => 2 * (x (i + 1) - x i ^ 2))
    (by
      intro i
      have h := ((hasDerivAt_const (x i) (x (i + 1))).fun_sub (hasDerivAt_pow 2 (x i))).fun_pow 2
      refine h.congr_deriv ?_
      norm_num)
    (by
      intro i
      have h := ((hasDerivAt_id' (x (i + 1))).fun_sub (hasDerivAt_const (x (i + 1)) (x i ^ 2))).fun_pow 2
      refine h.congr_deriv ?_
      norm_num)
  -- second sum: terms (1 - x(i))^2
  have h2 := sum_chained (n - 1) k x (fun _ a _ => (1 - a) ^ 2)
    (fun i => 2 * (1 - x i) * (-1)) (fun _ => 0)
    (by
      intro i
      have h := ((hasDerivAt_const (x i) (1 : ℝ)).fun_sub (hasDerivAt_id' (x i))).fun_pow 2
      refine h.congr_deriv ?_
      norm_num)
    (by intro i; exact hasDerivAt_const _ _)
  refine ((h1.const_mul 100).fun_add h2).congr_deriv ?_
  have e1 : (k < n - 1) ↔ (k + 1 < n) := by omega
  have e2 : (1 ≤ k ∧ k - 1 < n - 1) ↔ (1 ≤ k ∧ k < n) := by omega
  simp only [e1, e2]
  by_cases c1 : k + 1 < n <;> by_cases c2 : 1 ≤ k ∧ k < n
  · have : k - 1 + 1 = k := by omega
    rw [if_pos c1, if_pos c2, if_pos c1, if_pos c2, if_pos c2, if_pos c1, if_pos c1, this]; ring
  · rw [if_pos c1, if_neg c2, if_pos c1, if_neg c2, if_neg c2, if_pos c1, if_pos c1]; ring
  · have : k - 1 + 1 = k := by omega
    rw [if_neg c1, if_pos c2, if_neg c1, if_pos c2, if_pos c2, if_neg c1, if_neg c1, this]; ring
  · rw [if_neg c1, if_neg c2, if_neg c1, if_neg c2, if_neg c2, if_neg c1, if_neg c1]; ring

theorem beale_deriv (n k : ℕ) (hk : k < n) (x : ℕ → ℝ) :
    HasDerivAt (fun t => beale n (Function.update x k t)) (beale_grad n x k) (x k) := by
  unfold beale beale_grad
  have h1 := sum_chained (n - 1) k x
    (fun _ a b => (1.5 - a + a * b) ^ 2 + (2.25 - a + a * b ^ 2) ^ 2 + (2.625 - a + a * b ^ 3) ^ 2)
    (fun i => 2 * (1.5 - x i + x i * x (i + 1)) * (x (i + 1) - 1)
      + 2 * (2.25 - x i + x i * x (i + 1) ^ 2) * (x (i + 1) ^ 2 - 1)
      + 2 * (2.625 - x i + x i * x (i + 1) ^ 3) * (x (i + 1) ^ 3 - 1))
    (fun i => 2 * (1.5 - x i + x i * x (i + 1)) * (x i)
      + 2 * (2.25 - x i + x i * x (i + 1) ^ 2) * (x i * (2 * x (i + 1)))
      + 2 * (2.625 - x i + x i * x (i + 1) ^ 3) * (x i * (3 * x (i + 1) ^ 2)))
    (by
      intro i
      have ha := hasDerivAt_id' (x i)
      have t1 := (((hasDerivAt_const (x i) (1.5 : ℝ)).fun_sub ha).fun_add (ha.mul_const (x (i + 1)))).fun_pow 2
      have t2 := (((hasDerivAt_const (x i) (2.25 : ℝ)).fun_sub ha).fun_add (ha.mul_const (x (i + 1) ^ 2))).fun_pow 2
      have t3 := (((hasDerivAt_const (x i) (2.625 : ℝ)).fun_sub ha).fun_add (ha.mul_const (x (i + 1) ^ 3))).fun_pow 2
      refine ((t1.fun_add t2).fun_add t3).congr_deriv ?_
      norm_num
      ring)
    (by
      intro i
      have hb := hasDerivAt_id' (x (i + 1))
      have c (c : ℝ) := hasDerivAt_const (x (i + 1)) (c - x i)
      have t1 := ((c 1.5).fun_add (hb.const_mul (x i))).fun_pow 2
      have t2 := ((c 2.25).fun_add ((hasDerivAt_pow 2 (x (i + 1))).const_mul (x i))).fun_pow 2
      have t3 := ((c 2.625).fun_add ((hasDerivAt_pow 3 (x (i + 1))).const_mul (x i))).fun_pow 2
      refine ((t1.fun_add t2).fun_add t3).congr_deriv ?_
      norm_num)
  refine h1.congr_deriv ?_
  have e1 : (k < n - 1) ↔ (k + 1 < n) := by omega
  have e2 : (1 ≤ k ∧ k - 1 < n - 1) ↔ (1 ≤ k ∧ k < n) := by omega
  simp only [e1, e2]
  by_cases c1 : k + 1 < n <;> by_cases c2 : 1 ≤ k ∧ k < n
  · have : k - 1 + 1 = k := by omega
    rw [if_pos c1, if_pos c2, if_pos c1, if_pos c2, this]; ring
  · rw [if_pos c1, if_neg c2, if_pos c1, if_neg c2]; ring
  · have : k - 1 + 1 = k := by omega
    rw [if_neg c1, if_pos c2, if_neg c1, if_pos c2, this]; ring
  · rw [if_neg c1, if_neg c2, if_neg c1, if_neg c2]

theorem ackley_deriv (n k : ℕ) (hk : k < n) (x : ℕ → ℝ)
    (hdom : (∑ i ∈ range n, x i ^ 2) ≠ 0) :
    HasDerivAt (fun t => ackley n (Function.update x k t)) (ackley_grad n x k) (x k) := by
  unfold ackley ackley_grad
  have hn : ((n : ℕ) : ℝ) ≠ 0 := by
    have : 0 < n := by omega
    exact_mod_cast this.ne'
  -- the two sums as functions of the k-th coordinate
  have hS := sum_separable n k hk x (fun _ y => y ^ 2) _ (hasDerivAt_pow 2 (x k))
  have hcos : HasDerivAt (fun y : ℝ => Real.cos (2 * Real.pi * y))
      (-Real.sin (2 * Real.pi * x k) * (2 * Real.pi)) (x k) := by
    have h := ((hasDerivAt_id' (x k)).const_mul (2 * Real.pi)).cos
    refine h.congr_deriv ?_
    simp
  have hC := sum_separable n k hk x (fun _ y => Real.cos (2 * Real.pi * y)) _ hcos
  -- values at the point
  have hpt : ∀ i, Function.update x k (x k) i = x i := by
    intro i; rw [Function.update_eq_self]
  set S : ℝ := ∑ i ∈ range n, x i ^ 2 with hSdef
  have hSpos : 0 < S := by
    have h0 : 0 ≤ S := Finset.sum_nonneg (fun i _ => sq_nonneg (x i))
    exact lt_of_le_of_ne h0 (Ne.symm hdom)
  have hu : (1 : ℝ) / (n : ℝ) * S ≠ 0 := by
    have : 0 < (1 : ℝ) / (n : ℝ) * S := by positivity
    exact this.ne'
  -- sqrt(1/n * S(t))
  have hsqrt := (hS.const_mul ((1 : ℝ) / (n : ℝ))).sqrt (by simpa [hpt] using hu)
  have hexp1 := ((hsqrt.const_mul (-(0.2 : ℝ))).exp).const_mul (20 : ℝ)
  have hexp2 := (hC.const_mul ((1 : ℝ) / (n : ℝ))).exp
  have hall := ((hasDerivAt_const (x k) ((20 : ℝ) + 2.718281828459045)).fun_sub hexp1).fun_sub hexp2
  refine hall.congr_deriv ?_
  simp only [hpt]
  -- algebra: with w = sqrt(S/n), w^2 = S/n
  have hw2 : Real.sqrt (S / (n : ℝ)) ^ 2 = S / (n : ℝ) := Real.sq_sqrt (by positivity)
  have hwne : Real.sqrt (S / (n : ℝ)) ≠ 0 := by
    have : 0 < S / (n : ℝ) := by positivity
    exact (Real.sqrt_pos.2 this).ne'
  have e1 : (1 : ℝ) / (n : ℝ) * S = S / (n : ℝ) := by ring
  have e2 : (1 : ℝ) / (n : ℝ) * ∑ i ∈ range n, Real.cos (2 * Real.pi * x i)
      = (∑ i ∈ range n, Real.cos (2 * Real.pi * x i)) / (n : ℝ) := by ring
  rw [e1, e2]
  have hS' : S = (n : ℝ) * Real.sqrt (S / (n : ℝ)) ^ 2 := by
    rw [hw2]; field_simp
  generalize Real.sqrt (S / (n : ℝ)) = w at hw2 hwne hS' ⊢
  generalize Real.exp (-(0.2 : ℝ) * w) = E
  generalize Real.exp ((∑ i ∈ range n, Real.cos (2 * Real.pi * x i)) / (n : ℝ)) = E2
  rw [hS']
  field_simp
  ring

theorem griewank_deriv (n k : ℕ) (hk : k < n) (x : ℕ → ℝ)
    (hdom : Real.cos (x k / Real.sqrt (((k : ℕ) : ℝ) + 1)) ≠ 0) :
    HasDerivAt (fun t => griewank n (Function.update x k t)) (griewank_grad n x k) (x k) := by
  unfold griewank griewank_grad
  have hS := sum_separable n k hk x (fun _ y => y ^ 2) _ (hasDerivAt_pow 2 (x k))
  have hd : Real.sqrt (((k : ℕ) : ℝ) + 1) ≠ 0 := by
    have : (0 : ℝ) < ((k : ℕ) : ℝ) + 1 := by positivity
    exact (Real.sqrt_pos.2 this).ne'
  have hfac : HasDerivAt (fun y : ℝ => Real.cos (y / Real.sqrt (((k : ℕ) : ℝ) + 1)))
      (-Real.sin (x k / Real.sqrt (((k : ℕ) : ℝ) + 1)) * (1 / Real.sqrt (((k : ℕ) : ℝ) + 1))) (x k) := by
    have h := ((hasDerivAt_id' (x k)).div_const (Real.sqrt (((k : ℕ) : ℝ) + 1))).cos
    exact h
  have hP := prod_separable n k hk x (fun i y => Real.cos (y / Real.sqrt (((i : ℕ) : ℝ) + 1))) _ hfac
  have hall := ((hS.div_const (4000 : ℝ)).const_add (1 : ℝ)).fun_sub hP
  refine hall.congr_deriv ?_
  rw [prod_split n k hk (fun i => Real.cos (x i / Real.sqrt (((i : ℕ) : ℝ) + 1)))]
  generalize (∏ i ∈ range n \ {k}, Real.cos (x i / Real.sqrt (((i : ℕ) : ℝ) + 1))) = Q
  generalize Real.sqrt (((k : ℕ) : ℝ) + 1) = d at hd hdom ⊢
  generalize Real.sin (x k / d) = sn
  generalize Real.cos (x k / d) = cs at hdom ⊢
  field_simp
  ring

end Lbfgsb.C19
