/-
  C06 / C07 — "restarted from a returned result (or from the latest callback state) the run continues
  as the uninterrupted run does": the simulation theorem (ordered field, exact arithmetic).

  `sA` is a state of the main loop of a run (what the result of the run stopped there, or the callback
  state handed out there, is a snapshot of: `ck`). Restarting from `ck` — `initEval` + `prepare`
  with `checkpoint := ck`, `x0 := ck.x` — yields the loop state `sB`.
    * `restart_state`: `sB` IS `sA` up to the ghost logs (calls, callback states, kernel requests) and
      the wrapper's cache: same point, value, gradient, history `X, G`, matrices snapshot, iteration
      count, counters. (Proofs/RestartMem.lean: the history rebuilt from the pairs is the history.)
    * `restart_continues`: from there the loop of the restart computes exactly what the loop of the
      uninterrupted run computes from `sA` — for any number of further iterations — up to the same
      ghost data (Proofs/RestartSim.lean: after the first evaluation of the line search the wrappers
      are indistinguishable).
  Hypotheses, each the exact-arithmetic face of a recorded finding or a modelling choice: the point
  of `sA` ends its stored history and its last pair was accepted (else K4); no gradient scaler
  (else K1); no update function, no target, constant `gtol`; callbacks that let the run go on; the
  first line search of the continuation evaluates the objective at a point other than the current
  one (`FirstEval`: positive first step along a direction that moves some variable — otherwise the
  restarted wrapper would evaluate once more than the original, which holds the value in its cache).
  In floating point the rebuilt history differs in the last bits (K2): there the statement is
  decided by the split-run differential.
-/
import LbfgsbVerif.Proofs.RestartSim
import LbfgsbVerif.Proofs.RestartMem
import LbfgsbVerif.Proofs.Restart
import LbfgsbVerif.Proofs.C11

namespace Lbfgsb.C06
open Lbfgsb
variable {K ε δ : Type} [Field K] [LinearOrder K] [IsStrictOrderedRing K]
attribute [local instance] fieldFloatLike

/-- `ck` is the snapshot of the loop state `s` that a result / callback state carries -/
structure SnapshotOf (ck : Result K) (s : St K) : Prop where
  x : ck.x = s.x
  f : ck.f = s.f
  jac : ck.jac = s.g
  nfev : ck.nfev = s.sf.nfev
  njev : ck.njev = s.sf.ngev
  nit : ck.nit = s.nit
  sk : ck.sk = diffs s.X
  yk : ck.yk = diffs s.G

/-- the loop state is one a restart can reproduce -/
structure Restartable (c : Cfg K) (s : St K) (X' G' : List (Vec K)) (a : K) : Prop where
  hX : s.X = X' ++ [s.x]
  hG : s.G = G' ++ [s.g]
  lenX : AllLen s.x.length (X' ++ [s.x])
  lenG : AllLen s.g.length (G' ++ [s.g])
  hlen : X'.length = G'.length
  hb : X'.length ≤ c.maxcor
  curv : X' ≠ [] → curvOk s.x s.g (lastD X') (lastD G') c.epsSY = true
  mats : s.mats = if s.X.length > 1 then some (s.X, s.G) else none
  sf_mode : s.sf.mode = c.mode
  sf_lb : s.sf.lb = c.lb
  sf_ub : s.sf.ub = c.ub
  sf_scale : s.sf.scale = 1
  sf_x : s.sf.x = s.x
  task : s.task = .start
  success : s.success = false
  warnflag : s.warnflag = 2
  ftarget : s.ftarget = none
  gtol : s.gtol = a
  inbox : clip s.x c.lb c.ub = s.x

/-- **C06 (restart state)** -/
theorem restart_state (u : User K ε) (c : Cfg K) (s : St K) (X' G' : List (Vec K)) (a : K) (ck : Result K)
    (hs : Restartable c s X' G' a) (hck : SnapshotOf ck s)
    (hS : c.hasScaler = false) (hU : c.hasUpdate = false) (hT : c.ftarget = none) (hg : c.gtol = .const a)
    (i : Init K) (sB : St K)
    (hi : initEval u { c with checkpoint := some ck, x0 := s.x } = .ok i)
    (hp : prepare u { c with checkpoint := some ck, x0 := s.x } i = .ok sB) :
    ∃ sfB, SFR s.sf sfB ∧ sB = reState s sfB [] [] := by
  -- what initEval yields
  have hi' : i = { x := s.x, X := (restoreXG s.x ck.jac ck.sk ck.yk c.maxcor).1,
                   G := (restoreXG s.x ck.jac ck.sk ck.yk c.maxcor).2,
                   sf := { SF.new c.mode s.x c.lb c.ub with nfev := ck.nfev, ngev := ck.njev },
                   f0 := ck.f, ftarget := none, gtol := a, nit := ck.nit } := by
    unfold initEval firstEval evalFtarget at hi
    simp only [hT, hg, evalThresh, bind, Except.bind, pure, Except.pure, Except.ok.injEq, hs.inbox] at hi
    rw [← hi]
  have hsc : i.sf.scale = 1 := by rw [hi']; rfl
  have hprep := prepare_restart u { c with checkpoint := some ck, x0 := s.x } ck rfl hS hU (fun t => mul_one t) i hsc sB hp
  refine ⟨{ SF.new c.mode s.x c.lb c.ub with nfev := ck.nfev, ngev := ck.njev }, ?_, ?_⟩
  · exact ⟨hs.sf_mode, hs.sf_lb, hs.sf_ub, hs.sf_x, hck.nfev.symm, hck.njev.symm, hs.sf_scale⟩
  · have hmem := restartMemory_of_history X' G' s.x s.g c.maxcor c.epsSY hs.lenX hs.lenG hs.hlen hs.hb hs.curv
    rw [← hs.hX, ← hs.hG] at hmem
    unfold restartMemory at hmem
    dsimp only at hmem
    subst hi'
    unfold initMemory at hprep
    dsimp only [Init.state] at hprep
    rw [hck.jac, hck.sk, hck.yk] at hprep
    have ht := hs.task; have hsu := hs.success; have hw := hs.warnflag; have hft := hs.ftarget
    have hgt := hs.gtol; have hm := hs.mats
    by_cases hpos : (restoreXG s.x s.g (diffs s.X) (diffs s.G) c.maxcor).1.length > 0
    · simp only [hpos, if_true] at hprep hmem
      simp only [Prod.mk.injEq] at hmem
      rw [hprep]
      unfold reState
      cases s
      simp only at hmem hck ht hsu hw hft hgt hm hpos ⊢
      obtain ⟨h1, h2, h3, h4, h5, h6, h7, h8⟩ := hck
      simp only at h2 h6
      simp only [St.mk.injEq]
      exact ⟨(by first | rfl | trivial), h2, (by first | rfl | trivial), hmem.1, hmem.2.1, by rw [hmem.2.2, hm], (by first | rfl | trivial), h6, ht.symm, hsu.symm, hw.symm, hft.symm,
        hgt.symm, (by first | rfl | trivial), (by first | rfl | trivial)⟩
    · simp only [hpos, if_false] at hprep hmem
      simp only [Prod.mk.injEq] at hmem
      rw [hprep]
      unfold reState
      cases s
      simp only at hmem hck ht hsu hw hft hgt hm hpos ⊢
      obtain ⟨h1, h2, h3, h4, h5, h6, h7, h8⟩ := hck
      simp only at h2 h6
      simp only [St.mk.injEq]
      exact ⟨(by first | rfl | trivial), h2, (by first | rfl | trivial), hmem.1, hmem.2.1, by rw [hm, ← hmem.2.2], (by first | rfl | trivial), h6, ht.symm, hsu.symm, hw.symm, hft.symm,
        hgt.symm, (by first | rfl | trivial), (by first | rfl | trivial)⟩

/-- the main loop does not read the checkpoint or the start point -/
theorem mainLoop_indep_ck (u : User K ε) (o : Oracles K δ) (c : Cfg K) (ck : Option (Result K)) (x0 : Vec K) :
    ∀ (fuel : Nat) (s : St K), mainLoop u o { c with checkpoint := ck, x0 := x0 } fuel s = mainLoop u o c fuel s := by
  intro fuel
  induction fuel with
  | zero => intro s; rfl
  | succ n ih =>
    intro s
    simp only [mainLoop]
    have hg : guard { c with checkpoint := ck, x0 := x0 } s = guard c s := rfl
    have hb : iterBody u o { c with checkpoint := ck, x0 := x0 } s = iterBody u o c s := rfl
    rw [hg, hb]
    split
    · cases iterBody u o c s with
      | error e => rfl
      | ok r =>
        simp only [bind, Except.bind]
        cases r.2 with
        | brk => rfl
        | next => exact ih r.1
    · rfl

/-- **C06 / C07 (the restart continues the run)** from the state rebuilt out of the checkpoint, the
loop of the restart computes what the loop of the uninterrupted run computes from the state the
checkpoint is a snapshot of — whatever the number of further iterations — up to the ghost logs and
the wrapper's cache: same iterates, values, gradients, correction pairs, counters, termination. -/
theorem restart_continues (u : User K ε) (o : Oracles K δ) (c : Cfg K) (s : St K) (X' G' : List (Vec K)) (a : K)
    (ck : Result K) (hs : Restartable c s X' G' a) (hck : SnapshotOf ck s)
    (hS : c.hasScaler = false) (hU : c.hasUpdate = false) (hT : c.ftarget = none) (hg : c.gtol = .const a)
    (hcb : ∀ r, u.callback r = .ok false)
    (i : Init K) (sB : St K)
    (hi : initEval u { c with checkpoint := some ck, x0 := s.x } = .ok i)
    (hp : prepare u { c with checkpoint := some ck, x0 := s.x } i = .ok sB)
    (fuel : Nat)
    (hfe : guard c s = true → FirstEval o c s.x s.f s.g (vsub (o.xbar s.x s.g s.mats) s.x) s.nit
      (min c.maxls (c.maxfun - s.sf.nfev))) :
    (mainLoop u o c fuel s).map St.er2 =
      (mainLoop u o { c with checkpoint := some ck, x0 := s.x } fuel sB).map St.er2 := by
  obtain ⟨sfB, hr, hsB⟩ := restart_state u c s X' G' a ck hs hck hS hU hT hg i sB hi hp
  rw [mainLoop_indep_ck u o c (some ck) s.x fuel sB, hsB]
  exact mainLoop_fresh u o hcb c c.hasCallback fuel s sfB [] [] hr hs.sf_x hfe

/-- in particular the results (what the caller sees) coincide -/
theorem restart_same_result (u : User K ε) (o : Oracles K δ) (c : Cfg K) (s : St K) (X' G' : List (Vec K)) (a : K)
    (ck : Result K) (hs : Restartable c s X' G' a) (hck : SnapshotOf ck s)
    (hS : c.hasScaler = false) (hU : c.hasUpdate = false) (hT : c.ftarget = none) (hg : c.gtol = .const a)
    (hcb : ∀ r, u.callback r = .ok false)
    (i : Init K) (sB : St K)
    (hi : initEval u { c with checkpoint := some ck, x0 := s.x } = .ok i)
    (hp : prepare u { c with checkpoint := some ck, x0 := s.x } i = .ok sB)
    (fuel : Nat)
    (hfe : guard c s = true → FirstEval o c s.x s.f s.g (vsub (o.xbar s.x s.g s.mats) s.x) s.nit
      (min c.maxls (c.maxfun - s.sf.nfev)))
    (tA tB : St K) (hA : mainLoop u o c fuel s = .ok tA)
    (hB : mainLoop u o { c with checkpoint := some ck, x0 := s.x } fuel sB = .ok tB) :
    (classify c tA).result = (classify { c with checkpoint := some ck, x0 := s.x } tB).result := by
  have h := restart_continues u o c s X' G' a ck hs hck hS hU hT hg hcb i sB hi hp fuel hfe
  rw [hA, hB] at h
  simp only [Except.map, Except.ok.injEq] at h
  have hcl : classify { c with checkpoint := some ck, x0 := s.x } tB = classify c tB := rfl
  rw [hcl]
  cases tA with
  | mk x f g X G mats sf nit task success warnflag ftarget gtol cbStates olog =>
  cases tB with
  | mk x' f' g' X2 G2 mats' sf' nit' task' success' warnflag' ftarget' gtol' cbStates' olog' =>
  cases sf; cases sf'
  simp only [St.er2, St.mk.injEq, SF.mk.injEq] at h
  obtain ⟨h1, h2, h3, h4, h5, h6, ⟨s1, s2, s3, s4, s5, s6, s7, s8, s9, s10, s11, s12⟩, h8, h9, h10, h11, h12, h13, h14, h15⟩ := h
  subst h1 h2 h3 h4 h5 h8 h9 h10 h11 h12 h13 s1 s2 s3 s4 s9 s10 s11
  unfold classify St.result
  dsimp only
  split
  · rfl
  · split
    · rfl
    · split <;> rfl

end Lbfgsb.C06

/-! ### Non-vacuity (ℚ): f(x) = ½|x|² on [−2,2]², the state after one iteration from (1,1) with the
kernels proposing x/2 and a stepper accepting the unit step: all hypotheses of `restart_continues`
hold together, the restart's `initEval`/`prepare` succeed, and the first line search of the
continuation evaluates at x/2 ≠ x. -/
namespace Lbfgsb.C06
open Lbfgsb
section nonvacuous
attribute [local instance] fieldFloatLike

def simUser : User ℚ Unit :=
  { F := fun x => .ok (dot x x / 2), Gr := fun x => .ok x, fdPts := fun _ _ => [], fdComb := fun x _ _ => x,
    callback := fun _ => .ok false, update := fun i => .ok ⟨i.f0, i.f0Old, i.grad, i.G⟩,
    scaler := fun _ _ => .ok 1, ftargetFn := fun _ => .ok 0, gtolFn := fun _ => .ok 0 }

def simOracles : Oracles ℚ Unit :=
  { xbar := fun x _ _ => smul (1 / 2) x, dcNew := fun _ _ _ _ _ _ => (),
    dcIter := fun _ stp _ _ task => match task with | .start => ((), 1, .fg) | _ => ((), stp, .conv) }

def simCfg : Cfg ℚ :=
  { x0 := [1, 1], lb := [-2, -2], ub := [2, 2], mode := .callable, maxcor := 2, maxiter := 5, maxfun := 100, maxls := 20,
    ftol := 0, gtol := .const (1 / 1000), ftarget := none, maxStep := 100, ftolLS := 1 / 1000, gtolLS := 9 / 10, xtolLS := 1 / 10,
    epsSY := 0, hasCallback := false, hasUpdate := false, hasScaler := false, checkpoint := none }

def simState : St ℚ :=
  { x := [1 / 2, 1 / 2], f := 1 / 4, g := [1 / 2, 1 / 2], X := [[1, 1], [1 / 2, 1 / 2]], G := [[1, 1], [1 / 2, 1 / 2]],
    mats := some ([[1, 1], [1 / 2, 1 / 2]], [[1, 1], [1 / 2, 1 / 2]]),
    sf := { mode := .callable, lb := [-2, -2], ub := [2, 2], x := [1 / 2, 1 / 2], f := 1 / 4, g := [1 / 2, 1 / 2], fUpd := true,
            gUpd := true, nfev := 2, ngev := 2, scale := 1, log := [] },
    nit := 1, task := .start, success := false, warnflag := 2, ftarget := none, gtol := 1 / 1000, cbStates := [], olog := [] }

theorem sim_restartable : Restartable simCfg simState [[1, 1]] [[1, 1]] (1 / 1000) where
  hX := rfl
  hG := rfl
  lenX := by intro v hv; simp at hv; rcases hv with rfl | rfl <;> rfl
  lenG := by intro v hv; simp at hv; rcases hv with rfl | rfl <;> rfl
  hlen := rfl
  hb := by decide
  curv := fun _ => by decide +kernel
  mats := by decide +kernel
  sf_mode := rfl
  sf_lb := rfl
  sf_ub := rfl
  sf_scale := rfl
  sf_x := rfl
  task := rfl
  success := rfl
  warnflag := rfl
  ftarget := rfl
  gtol := rfl
  inbox := by decide +kernel

theorem sim_firstEval : FirstEval simOracles simCfg simState.x simState.f simState.g
    (vsub (simOracles.xbar simState.x simState.g simState.mats) simState.x) simState.nit
    (min simCfg.maxls (simCfg.maxfun - simState.sf.nfev)) := by
  refine ⟨by decide, rfl, by decide +kernel⟩

/-- all the hypotheses of `restart_continues` hold of this instance (three further iterations) -/
example : ∃ sB, (mainLoop simUser simOracles simCfg 3 simState).map St.er2 =
    (mainLoop simUser simOracles { simCfg with checkpoint := some simState.result, x0 := simState.x } 3 sB).map St.er2 := by
  have hok : (initEval simUser { simCfg with checkpoint := some simState.result, x0 := simState.x } >>=
      prepare simUser { simCfg with checkpoint := some simState.result, x0 := simState.x }).toBool = true := by
    decide +kernel
  cases hi : initEval simUser { simCfg with checkpoint := some simState.result, x0 := simState.x } with
  | error e => rw [hi] at hok; simp [bind, Except.bind, Except.toBool] at hok
  | ok i =>
    cases hp : prepare simUser { simCfg with checkpoint := some simState.result, x0 := simState.x } i with
    | error e => rw [hi] at hok; simp only [bind, Except.bind] at hok; rw [hp] at hok; simp [Except.toBool] at hok
    | ok sB =>
      exact ⟨sB, restart_continues simUser simOracles simCfg simState _ _ _ simState.result sim_restartable
        ⟨rfl, rfl, rfl, rfl, rfl, rfl, rfl, rfl⟩ rfl rfl rfl rfl (fun _ => rfl) i sB hi hp 3 (fun _ => sim_firstEval)⟩

end nonvacuous
end Lbfgsb.C06
