/-
  C16 — finite-difference modes work at the bounds.

  About the executable model of the differencing (Model/FD.lean: SciPy's step selection,
  `_adjust_scheme_to_bounds` with one step, the stencils of `_dense_difference`, the package's
  post-processing), level F (ordered field, exact arithmetic):
    * `stencil_in_box_1sided`: for `lb ≤ x ≤ ub` and ANY step `h`, the forward/backward point
      `x + adjust1 x h lb ub` is in `[lb, ub]` — also when the box is narrower than the step,
      when `x` sits on a bound, and when `lb = ub`;
    * `stencil_in_box_2sided`: both points of the three-point stencil (central, or one-sided
      `x + h, x + 2h`) are in `[lb, ub]`;
    * `fd_points_in_box`: hence every point of a whole gradient's stencil is in the box — this
      is exactly the hypothesis `Ctx2.stencil` under which C02 `evals_in_box` is proved, now
      discharged for the model of the routine instead of assumed;
    * `fd_counts`: a gradient costs `n` (two-point) or `2n` (three-point) stencil evaluations
      (with C15 `fd_counts`: all of them through the counting wrapper, plus at most one at the
      base point);
  and level U (any order, uninterpreted arithmetic):
    * `fixed_component_zero`: a component with `lb = ub` gets partial derivative `0`, whatever
      the stencil values (not the `0/0` of the differencing routine).
  In floating point `x + h` may round: that the rounded stencil stays in the box and that the
  finite-difference solution agrees with the exact-gradient one is decided by the correspondence
  (bit-exact comparison of the model with every stencil and gradient of real runs) and the
  search.
-/
import LbfgsbVerif.Model.FD
import LbfgsbVerif.Proofs.Basic
import Mathlib.Algebra.Order.Field.Basic
import Mathlib.Algebra.Order.Field.Rat
import Mathlib.Tactic.Linarith
import Mathlib.Tactic.FieldSimp
import Mathlib.Tactic.Ring

namespace Lbfgsb.C16
open Lbfgsb Lbfgsb.FD

section F
variable {α : Type} [Field α] [LinearOrder α] [IsStrictOrderedRing α]

theorem le_iff (a b : α) : le a b = true ↔ a ≤ b := by
  simp [le]

theorem fabs_eq (a : α) : fabs a = |a| := by
  unfold fabs
  split
  · rw [abs_of_neg ‹_›]
  · rw [abs_of_nonneg (not_lt.1 ‹_›)]

theorem fmax_eq (a b : α) : fmax a b = max a b := by
  unfold fmax
  split
  · rw [max_eq_right (le_of_lt ‹_›)]
  · rw [max_eq_left (not_lt.1 ‹_›)]

theorem fmin_eq (a b : α) : fmin a b = min a b := by
  unfold fmin
  split
  · rw [min_eq_right (le_of_lt ‹_›)]
  · rw [min_eq_left (not_lt.1 ‹_›)]

/-- **C16 (1)** one-sided scheme: whatever the step, the stencil point is in `[lb, ub]`. -/
theorem stencil_in_box_1sided (x h lb ub : α) (hl : lb ≤ x) (hu : x ≤ ub) :
    lb ≤ x + adjust1 x h lb ub ∧ x + adjust1 x h lb ub ≤ ub := by
  unfold adjust1
  simp only [mul_one, div_one]
  split
  · rename_i hfit
    rw [le_iff, fabs_eq, fmax_eq] at hfit
    split
    · rename_i hviol
      simp only [Bool.or_eq_true, decide_eq_true_eq] at hviol
      have hab := abs_le.1 hfit
      rcases hviol with hv | hv
      · -- x + h < lb: h < 0, so |h| = -h ≤ max …; the flipped point x - h
        have hneg : h < 0 := by linarith
        have : -h ≤ max (x - lb) (ub - x) := by
          have := hfit; rw [abs_of_neg hneg] at this; exact this
        rcases le_max_iff.1 this with h1 | h1
        · -- -h ≤ x - lb contradicts x + h < lb
          exfalso; linarith
        · constructor <;> linarith
      · have hpos : 0 < h := by linarith
        have : h ≤ max (x - lb) (ub - x) := by
          have := hfit; rw [abs_of_pos hpos] at this; exact this
        rcases le_max_iff.1 this with h1 | h1
        · constructor <;> linarith
        · exfalso; linarith
    · rename_i hviol
      simp only [Bool.or_eq_true, decide_eq_true_eq, not_or, not_lt] at hviol
      exact hviol
  · split
    · constructor <;> linarith
    · constructor <;> linarith

/-- the three outcomes of the two-sided adjustment -/
theorem adjust2_cases (x h lb ub : α) (hl : lb ≤ x) (hu : x ≤ ub) :
    ((adjust2 x h lb ub).2 = false ∧ 0 ≤ (adjust2 x h lb ub).1 ∧
        (adjust2 x h lb ub).1 ≤ x - lb ∧ (adjust2 x h lb ub).1 ≤ ub - x) ∨
    ((adjust2 x h lb ub).2 = true ∧
      ((0 ≤ (adjust2 x h lb ub).1 ∧ 2 * (adjust2 x h lb ub).1 ≤ ub - x) ∨
       ((adjust2 x h lb ub).1 ≤ 0 ∧ lb - x ≤ 2 * (adjust2 x h lb ub).1))) := by
  have h0 : 0 ≤ |h| := abs_nonneg h
  have hlo : 0 ≤ x - lb := by linarith
  have hup : 0 ≤ ub - x := by linarith
  have hhalf : (1 : α) / (1 + 1) = 1 / 2 := by norm_num
  unfold adjust2
  simp only [mul_one, div_one, fabs_eq, fmin_eq, hhalf]
  by_cases hc : (le |h| (x - lb) && le |h| (ub - x)) = true
  · simp only [hc, if_true]
    simp only [Bool.and_eq_true, le_iff] at hc
    left; exact ⟨by first | rfl | trivial, h0, hc.1, hc.2⟩
  · simp only [hc, if_false, Bool.false_eq_true, ↓reduceIte]
    by_cases hm : le |if le (x - lb) (ub - x) = true then min |h| (1 / 2 * (ub - x))
        else -min |h| (1 / 2 * (x - lb))| (min (ub - x) (x - lb)) = true
    · simp only [hm, if_true, ↓reduceIte]
      left
      exact ⟨by first | rfl | trivial, le_min hup hlo, min_le_right _ _, min_le_left _ _⟩
    · simp only [hm, if_false, Bool.false_eq_true, ↓reduceIte]
      right
      refine ⟨by first | rfl | trivial, ?_⟩
      by_cases hf : le (x - lb) (ub - x) = true
      · simp only [hf, if_true, ↓reduceIte]
        left
        have hm1 : min |h| (1 / 2 * (ub - x)) ≤ 1 / 2 * (ub - x) := min_le_right _ _
        exact ⟨le_min h0 (by linarith), by linarith⟩
      · simp only [hf, if_false, Bool.false_eq_true, ↓reduceIte]
        right
        have hm1 : min |h| (1 / 2 * (x - lb)) ≤ 1 / 2 * (x - lb) := min_le_right _ _
        have hm0 : 0 ≤ min |h| (1 / 2 * (x - lb)) := le_min h0 (by linarith)
        exact ⟨by linarith, by linarith⟩

/-- **C16 (2)** two-sided scheme: both stencil points are in `[lb, ub]`. -/
theorem stencil_in_box_2sided (x h lb ub : α) (hl : lb ≤ x) (hu : x ≤ ub) :
    ∀ p ∈ points1Raw .three x h lb ub, lb ≤ p ∧ p ≤ ub := by
  intro p hp
  unfold points1Raw at hp
  simp only at hp
  have h2 : (1 : α) + 1 = 2 := by norm_num
  rw [h2] at hp
  rcases adjust2_cases x h lb ub hl hu with ⟨hf, h0, h1, h3⟩ | ⟨ht, hcase⟩
  · simp only [hf, Bool.false_eq_true, if_false, List.mem_cons, List.not_mem_nil, or_false] at hp
    rcases hp with rfl | rfl
    · constructor <;> linarith
    · constructor <;> linarith
  · simp only [ht, if_true, List.mem_cons, List.not_mem_nil, or_false] at hp
    rcases hcase with ⟨h0, h1⟩ | ⟨h0, h1⟩
    · rcases hp with rfl | rfl
      · constructor <;> linarith
      · constructor <;> linarith
    · rcases hp with rfl | rfl
      · constructor <;> linarith
      · constructor <;> linarith

theorem points1Raw_in (s : Scheme) (x h lb ub : α) (hl : lb ≤ x) (hu : x ≤ ub) :
    ∀ v ∈ points1Raw s x h lb ub, lb ≤ v ∧ v ≤ ub := by
  cases s with
  | two =>
    intro v hv
    simp only [points1Raw, List.mem_cons, List.not_mem_nil, or_false] at hv
    subst hv
    exact stencil_in_box_1sided x h lb ub hl hu
  | three => exact stencil_in_box_2sided x h lb ub hl hu

/-- **C16 (3a)** in exact arithmetic the projection added by the package is the identity: the
routine's own stencil is already inside the box. -/
theorem clip_is_identity_exact (s : Scheme) (x h lb ub : α) (hl : lb ≤ x) (hu : x ≤ ub) :
    points1 s x h lb ub = points1Raw s x h lb ub := by
  unfold points1
  conv_rhs => rw [← List.map_id (points1Raw s x h lb ub)]
  apply List.map_congr_left
  intro v hv
  obtain ⟨h1, h2⟩ := points1Raw_in s x h lb ub hl hu v hv
  exact clip1_of_mem (not_lt.2 h1) (not_lt.2 h2)

theorem points1_length (s : Scheme) (x h lb ub : α) :
    (points1 s x h lb ub).length = (match s with | .two => 1 | .three => 2) := by
  cases s with
  | two => simp [points1, points1Raw]
  | three => simp only [points1, points1Raw, List.length_map]; split <;> simp

theorem pointsGo_length (s : Scheme) (hOf : α → α) (xs : Vec α) :
    ∀ (pre ls us : Vec α), ls.length = xs.length → us.length = xs.length →
      (pointsGo s hOf pre xs ls us).length = (match s with | .two => 1 | .three => 2) * xs.length := by
  induction xs with
  | nil => intro pre ls us _ _; simp [pointsGo]
  | cons xi xs ih =>
    intro pre ls us h1 h2
    cases ls with
    | nil => simp at h1
    | cons li ls' =>
      cases us with
      | nil => simp at h2
      | cons ui us' =>
        simp only [pointsGo, List.length_append, List.length_map, points1_length, List.length_cons]
        rw [ih _ ls' us' (by simpa using h1) (by simpa using h2)]
        ring

/-- **C16 (4)** a gradient evaluates exactly `n` (two-point) or `2n` (three-point) stencil
points. -/
theorem fd_counts (s : Scheme) (hOf : α → α) (x lb ub : Vec α) (h1 : lb.length = x.length)
    (h2 : ub.length = x.length) :
    (points s hOf x lb ub).length = (match s with | .two => 1 | .three => 2) * x.length :=
  pointsGo_length s hOf x [] lb ub h1 h2

end F

section U
variable {α : Type} [LinearOrder α] [Add α] [Sub α] [Mul α] [Div α] [Neg α] [OfNat α 0] [OfNat α 1]

theorem inBox_append {l1 u1 p1 l2 u2 p2 : Vec α} (h1 : InBox l1 u1 p1) (h2 : InBox l2 u2 p2) :
    InBox (l1 ++ l2) (u1 ++ u2) (p1 ++ p2) := by
  induction l1 generalizing u1 p1 with
  | nil =>
    cases u1 <;> cases p1 <;> simp_all [InBox]
  | cons a as ih =>
    cases u1 with
    | nil => simp [InBox] at h1
    | cons b bs =>
      cases p1 with
      | nil => simp [InBox] at h1
      | cons c cs =>
        simp only [InBox] at h1
        simp only [List.cons_append, InBox]
        exact ⟨h1.1, ih h1.2⟩

theorem pointsGo_inBox (s : Scheme) (hOf : α → α) (xs : Vec α) :
    ∀ (pre ls us lpre upre : Vec α), InBox lpre upre pre → InBox ls us xs →
      ∀ pt ∈ pointsGo s hOf pre xs ls us, InBox (lpre ++ ls) (upre ++ us) pt := by
  induction xs with
  | nil => intro pre ls us lpre upre _ _ pt hpt; simp [pointsGo] at hpt
  | cons xi xs ih =>
    intro pre ls us lpre upre hpre hbox pt hpt
    cases ls with
    | nil => cases us <;> simp [InBox] at hbox
    | cons li ls' =>
      cases us with
      | nil => simp [InBox] at hbox
      | cons ui us' =>
        simp only [InBox] at hbox
        obtain ⟨⟨h1, h2⟩, hrest⟩ := hbox
        simp only [pointsGo, List.mem_append, List.mem_map] at hpt
        rcases hpt with ⟨v, hv, rfl⟩ | hrec
        · have hlu : ¬ ui < li := fun hc => h2 (lt_of_lt_of_le hc (not_lt.1 h1))
          simp only [points1, List.mem_map] at hv
          obtain ⟨w, -, rfl⟩ := hv
          apply inBox_append hpre
          simp only [InBox]
          exact ⟨⟨clip1_ge hlu w, clip1_le hlu w⟩, hrest⟩
        · have hpre' : InBox (lpre ++ [li]) (upre ++ [ui]) (pre ++ [xi]) :=
            inBox_append hpre (by simp only [InBox]; exact ⟨⟨h1, h2⟩, trivial⟩)
          have := ih (pre ++ [xi]) ls' us' (lpre ++ [li]) (upre ++ [ui]) hpre' hrest pt hrec
          simpa [List.append_assoc] using this

/-- **C16 (3)** every point of a gradient's stencil is inside the box — for ANY arithmetic
(level U: it survives rounding, because the package projects each stencil point): the contract
`Ctx2.stencil` assumed by C02 holds for the model of the differencing, for any rule `hOf`
choosing the steps. -/
theorem fd_points_in_box (s : Scheme) (hOf : α → α) (x lb ub : Vec α) (hx : InBox lb ub x) :
    ∀ pt ∈ points s hOf x lb ub, InBox lb ub pt := by
  intro pt hpt
  have := pointsGo_inBox s hOf x [] lb ub [] [] (by simp [InBox]) hx pt hpt
  simpa using this


theorem gradGo_fixed (s : Scheme) (hOf : α → α) (f0 : α) (xs : Vec α) :
    ∀ (ls us vals : Vec α) (j : Nat) (l u : α), ls[j]? = some l → us[j]? = some u → j < xs.length →
      feq l u = true → (grad.go s hOf f0 (match s with | .two => 1 | .three => 2) xs ls us vals)[j]? = some 0 := by
  induction xs with
  | nil => intro ls us vals j l u _ _ hj; simp at hj
  | cons xi xs ih =>
    intro ls us vals j l u hl hu hj hf
    cases ls with
    | nil => simp at hl
    | cons li ls' =>
      cases us with
      | nil => simp at hu
      | cons ui us' =>
        cases j with
        | zero =>
          simp only [List.getElem?_cons_zero, Option.some.injEq] at hl hu
          subst hl; subst hu
          simp [grad.go, hf]
        | succ j' =>
          simp only [List.getElem?_cons_succ] at hl hu
          simp only [grad.go, List.getElem?_cons_succ]
          exact ih ls' us' _ j' l u hl hu (by simpa using hj) hf

/-- **C16 (5)** a component fixed by `lb = ub` gets partial derivative `0`, whatever the
stencil values — not the `0/0` of the differencing routine. -/
theorem fixed_component_zero (s : Scheme) (hOf : α → α) (x lb ub : Vec α) (f0 : α) (vals : Vec α)
    (j : Nat) (l u : α) (hl : lb[j]? = some l) (hu : ub[j]? = some u) (hj : j < x.length)
    (hf : feq l u = true) : (grad s hOf x lb ub f0 vals)[j]? = some 0 := by
  unfold grad
  exact gradGo_fixed s hOf f0 x lb ub vals j l u hl hu hj hf

end U

/-! ### Non-vacuity (ℚ): x on the upper bound → the forward step flips; a box narrower than the
step → the step shrinks to the distance; three-point at a bound → one-sided `x + h, x + 2h`. -/
section nonvacuous
example : adjust1 (1 : ℚ) (1/10) 0 1 = -(1/10) := by decide +kernel
example : adjust1 (1/2 : ℚ) 10 0 1 = 1/2 := by decide +kernel
example : points1 .three (0 : ℚ) (1/10) 0 1 = [1/10, 1/5] := by decide +kernel
example : points .two (fun _ => (1/10 : ℚ)) [1, 0] [0, 0] [1, 0] = [[9/10, 0], [1, 0]] := by decide +kernel
example : grad .two (fun _ => (1/10 : ℚ)) [1, 0] [0, 0] [1, 0] 5 [4, 5] = [10, 0] := by decide +kernel
end nonvacuous

end Lbfgsb.C16
