/-
  The composed kernel model (Model/Kernels.lean) meets the SIZE hypotheses of the kernel theorems by
  construction: for a memory snapshot `(X, G)` with `m + 1` points (`m ≥ 1`), `W` has one row per
  variable, every row has `2m` entries, and `2m` is what `cauchy`/`subspaceMin` read off `W` as `k`.
  What remains of `MinCtx` / `SubCtx` for the complete model are the analytic hypotheses only
  (feasible `x`, exact solves, positive definiteness, inactive floor).
-/
import LbfgsbVerif.Model.Kernels
import LbfgsbVerif.Proofs.CauchyMin
import LbfgsbVerif.Proofs.C06
import LbfgsbVerif.Props.C02
import LbfgsbVerif.Props.C08
import LbfgsbVerif.Props.C09
import LbfgsbVerif.Props.C01Descent
import Mathlib.Data.List.GetD

namespace Lbfgsb
variable {K : Type} [Field K] [LinearOrder K] [IsStrictOrderedRing K]

theorem buildW_length (n : Nat) (θ : K) (S Y : List (Vec K)) : (buildW n θ S Y).length = n := by
  simp [buildW]

theorem buildW_row (n : Nat) (θ : K) (S Y : List (Vec K)) (r : Nat) (hr : r < n) :
    ((buildW n θ S Y).getD r []).length = Y.length + S.length := by
  simp [buildW, List.getD_eq_getElem?_getD, List.getElem?_map, List.getElem?_range hr]

/-- sizes of the kernel input built from a memory snapshot with at least one pair -/
theorem kernelInput_sizes (x g lb ub : Vec K) (X G : List (Vec K)) (e : K) (hX : X.length > 1)
    (hXG : X.length = G.length) (hn : 0 < x.length) :
    let i := kernelInput x g lb ub (some (X, G)) e
    i.W.length = x.length ∧ (∀ r, r < x.length → (i.W.getD r []).length = 2 * (X.length - 1)) ∧
      kOf i = 2 * (X.length - 1) ∧ i.useFactor = true ∧ i.x = x ∧ i.g = fitTo x g := by
  intro i
  have hi : i = { x, g := fitTo x g, lb, ub, theta := thetaOf X G, W := buildW x.length (thetaOf X G) (diffs X) (diffs G),
                  Minv := buildMinv (thetaOf X G) (diffs X) (diffs G), useFactor := true, epsFsec := e } := by
    simp only [i, kernelInput, hX, if_true]
  have hdx : (diffs X).length = X.length - 1 := diffs_length X
  have hdg : (diffs G).length = X.length - 1 := by rw [diffs_length G, hXG]
  rw [hi]
  refine ⟨buildW_length _ _ _ _, ?_, ?_, rfl, rfl, rfl⟩
  · intro r hr
    rw [buildW_row _ _ _ _ r hr, hdx, hdg]; omega
  · unfold kOf
    dsimp only
    have h0 := buildW_row x.length (thetaOf X G) (diffs X) (diffs G) 0 hn
    cases hW : buildW x.length (thetaOf X G) (diffs X) (diffs G) with
    | nil =>
      have := buildW_length x.length (thetaOf X G) (diffs X) (diffs G)
      rw [hW] at this; simp at this; omega
    | cons row rest =>
      rw [hW] at h0
      simp only [List.getD_cons_zero] at h0
      show row.length = 2 * (X.length - 1)
      rw [h0, hdx, hdg]; omega

/-! ### the matrix `M⁻¹ = [[−D, Lᵀ], [L, θ SᵀS]]` the model builds is symmetric -/

theorem dot_comm' (a b : Vec K) : dot a b = dot b a := by
  induction a generalizing b with
  | nil => cases b <;> simp [dot, vzip]
  | cons x xs ih =>
    cases b with
    | nil => simp [dot, vzip]
    | cons y ys => rw [dot_cons, dot_cons, ih ys, mul_comm]

/-- entry `(a, b)` of `buildMinv` -/
def minvEntry (θ : K) (S Y : List (Vec K)) (a b : Nat) : K :=
  let m := S.length
  if a < m then
    if b < m then (if a = b then -(dot (S.getD a []) (Y.getD a [])) else 0)
    else (if b - m > a then dot (S.getD (b - m) []) (Y.getD a []) else 0)
  else
    if b < m then (if a - m > b then dot (S.getD (a - m) []) (Y.getD b []) else 0)
    else θ * dot (S.getD (a - m) []) (S.getD (b - m) [])

theorem getD_map_range {A : Type} (f : Nat → A) (m j : Nat) (d : A) (hj : j < m) :
    ((List.range m).map f).getD j d = f j := by
  simp [List.getD_eq_getElem?_getD, List.getElem?_map, List.getElem?_range hj]

theorem buildMinv_entry (θ : K) (S Y : List (Vec K)) (a b : Nat) (ha : a < 2 * S.length) (hb : b < 2 * S.length) :
    ((buildMinv θ S Y).getD a []).getD b 0 = minvEntry θ S Y a b := by
  unfold buildMinv minvEntry
  dsimp only
  by_cases ham : a < S.length
  · rw [if_pos ham, List.getD_append _ _ _ _ (by simpa using ham), getD_map_range _ _ _ _ ham]
    by_cases hbm : b < S.length
    · rw [if_pos hbm, List.getD_append _ _ _ _ (by simpa using hbm), getD_map_range _ _ _ _ hbm]
    · rw [if_neg hbm, List.getD_append_right _ _ _ _ (by simpa using not_lt.1 hbm)]
      simp only [List.length_map, List.length_range]
      rw [getD_map_range _ _ _ _ (by omega)]
  · rw [if_neg ham, List.getD_append_right _ _ _ _ (by simpa using not_lt.1 ham)]
    simp only [List.length_map, List.length_range]
    rw [getD_map_range _ _ _ _ (by omega)]
    by_cases hbm : b < S.length
    · rw [if_pos hbm, List.getD_append _ _ _ _ (by simpa using hbm), getD_map_range _ _ _ _ hbm]
    · rw [if_neg hbm, List.getD_append_right _ _ _ _ (by simpa using not_lt.1 hbm)]
      simp only [List.length_map, List.length_range]
      rw [getD_map_range _ _ _ _ (by omega)]

/-- **`buildMinv` is symmetric** (so, by C08 `middle_symm`, is the middle matrix `M` it is the
inverse of) -/
theorem buildMinv_symm (θ : K) (S Y : List (Vec K)) (a b : Nat) (ha : a < 2 * S.length) (hb : b < 2 * S.length) :
    ((buildMinv θ S Y).getD a []).getD b 0 = ((buildMinv θ S Y).getD b []).getD a 0 := by
  rw [buildMinv_entry θ S Y a b ha hb, buildMinv_entry θ S Y b a hb ha]
  unfold minvEntry
  dsimp only
  by_cases ham : a < S.length <;> by_cases hbm : b < S.length
  · rw [if_pos ham, if_pos hbm, if_pos hbm, if_pos ham]
    by_cases hab : a = b
    · subst hab; rfl
    · rw [if_neg hab, if_neg (Ne.symm hab)]
  · rw [if_pos ham, if_neg hbm, if_neg hbm, if_pos ham]
  · rw [if_neg ham, if_pos hbm, if_pos hbm, if_neg ham]
  · rw [if_neg ham, if_neg hbm, if_neg hbm, if_neg ham, dot_comm']

/-! ### descent at every non-stationary iterate, for the composed kernel (ordered field) -/
open Matrix in
/-- **C01 (f)** the direction the complete model computes, `x̄ − x` with `x̄ = xbarModel …`, is a
descent direction at every non-stationary point — under the analytic hypotheses of the kernel
theorems (`MinCtx`, `SubCtx`: exact solves, positive definite model, floor inactive) for the kernel
input built from the memory snapshot. -/
theorem complete_iteration_descent (lb ub : Vec K) (e : K) (x g : Vec K) (mats : Mats K) (n k : Nat)
    (Mm Minvm : Matrix (Fin k) (Fin k) K)
    (hk : kOf (kernelInput x g lb ub mats e) = k)
    (hc : MinCtx (kernelInput x g lb ub mats e) n k Mm (f2orgOf (kernelInput x g lb ub mats e)))
    (hns : projgr (kernelInput x g lb ub mats e).x (kernelInput x g lb ub mats e).g
      (kernelInput x g lb ub mats e).lb (kernelInput x g lb ub mats e).ub ≠ 0)
    (hsub : SubCtx (subInOf (kernelInput x g lb ub mats e)) n k Mm Minvm) :
    vec n (kernelInput x g lb ub mats e).g ⬝ᵥ
      (vec n (xbarModel lb ub e x g mats) - vec n (kernelInput x g lb ub mats e).x) < 0 :=
  C01.model_iteration_descent (kernelInput x g lb ub mats e) n k Mm Minvm hk hc hns _ rfl rfl hsub

/-! ### the composed kernel returns a feasible point, and C02 for the complete model (level U: any arithmetic) -/
section U
variable {α : Type} [LinearOrder α] [Add α] [Sub α] [Mul α] [Div α] [Neg α] [OfNat α 0] [OfNat α 1]


theorem fitTo_length (x g : Vec α) : (fitTo x g).length = x.length := by simp [fitTo]

theorem fitTo_eq (x g : Vec α) (h : g.length = x.length) : fitTo x g = g := by
  apply ext_getD (0 : α)
  · rw [fitTo_length, h]
  · intro j hj
    rw [fitTo_length] at hj
    unfold fitTo
    rw [getD_map_range _ _ _ _ hj]

theorem kernelInput_fields (x g lb ub : Vec α) (m : Mats α) (e : α) :
    (kernelInput x g lb ub m e).x = x ∧ (kernelInput x g lb ub m e).lb = lb ∧ (kernelInput x g lb ub m e).ub = ub ∧
      (kernelInput x g lb ub m e).g = fitTo x g ∧ (kernelInput x g lb ub m e).W.length = x.length := by
  unfold kernelInput
  dsimp only
  cases m with
  | none => exact ⟨rfl, rfl, rfl, rfl, by simp⟩
  | some p =>
    obtain ⟨X, G⟩ := p
    dsimp only
    split
    · exact ⟨rfl, rfl, rfl, rfl, by simp [buildW]⟩
    · exact ⟨rfl, rfl, rfl, rfl, by simp⟩

/-- for a feasible `x` the composed kernel model returns a point of the box (any arithmetic) -/
theorem xbarModel_inBox (lb ub : Vec α) (hb : BoxOk lb ub) (e : α) (x g : Vec α) (m : Mats α)
    (hx : InBox lb ub x) : InBox lb ub (xbarModel lb ub e x g m) := by
  unfold xbarModel subInOf
  obtain ⟨h1, h2, h3, h4, h5⟩ := kernelInput_fields x g lb ub m e
  have hcp : InBox lb ub (cauchy (kernelInput x g lb ub m e)).1 := by
    have := C08.gcp_in_box (kernelInput x g lb ub m e) (by rw [h2, h3]; exact hb) (by rw [h1, h2, h3]; exact hx)
      (by rw [h4, h1, fitTo_length])
    rw [h2, h3] at this
    exact this
  have hlen : (cauchy (kernelInput x g lb ub m e)).1.length = x.length := by
    rw [(inBox_length hcp).1, (inBox_length hx).1]
  have := C09.xbar_in_box
    ({ kernelInput x g lb ub m e with xc := (cauchy (kernelInput x g lb ub m e)).1,
                                       c := (cauchy (kernelInput x g lb ub m e)).2 } : SubIn α)
    (by show BoxOk (kernelInput x g lb ub m e).lb (kernelInput x g lb ub m e).ub; rw [h2, h3]; exact hb)
    (by show InBox (kernelInput x g lb ub m e).lb (kernelInput x g lb ub m e).ub _; rw [h2, h3]; exact hcp)
    (by show (kernelInput x g lb ub m e).g.length = _; rw [h4, fitTo_length, hlen])
    (by show (kernelInput x g lb ub m e).x.length = _; rw [h1, hlen])
    (by show (kernelInput x g lb ub m e).W.length = _; rw [h5, hlen])
  rw [h2, h3] at this
  exact this

end U
/-- `InBox` (with `¬ <`) gives `InBoxF` (with `≤`) in a linear order -/
theorem inBoxF_of_inBox {lb ub p : Vec K} (h : InBox lb ub p) : InBoxF lb ub p := by
  induction lb generalizing ub p with
  | nil => cases ub <;> cases p <;> simp_all [InBoxF, InBox]
  | cons l ls ih =>
    cases ub with
    | nil => simp [InBox] at h
    | cons u us =>
      cases p with
      | nil => simp [InBox] at h
      | cons q qs =>
        simp only [InBox] at h
        simp only [InBoxF]
        exact ⟨⟨not_lt.1 h.1.1, not_lt.1 h.1.2⟩, ih h.2⟩

/-- a box that contains a point is well formed -/
theorem boxOk_of_inBox {lb ub p : Vec K} (h : InBox lb ub p) : BoxOk lb ub := by
  induction lb generalizing ub p with
  | nil => cases ub <;> cases p <;> simp_all [BoxOk, InBox]
  | cons l ls ih =>
    cases ub with
    | nil => simp [InBox] at h
    | cons u us =>
      cases p with
      | nil => simp [InBox] at h
      | cons q qs =>
        simp only [InBox] at h
        simp only [BoxOk]
        exact ⟨not_lt.2 (le_trans (not_lt.1 h.1.1) (not_lt.1 h.1.2)), ih h.2⟩

open Matrix in
/-- **C01 (g) — first iteration, closed form.** With an empty memory (first iteration, or after a
reset) nothing is solved: `B = I`, the Cauchy search and the subspace step are plain arithmetic.
For the complete model, at every feasible non-stationary `x`, the direction `x̄ − x` is a descent
direction — the only hypothesis left is that the Fortran floor on `f''` stays inactive. -/
theorem first_iteration_descent (lb ub : Vec K) (e : K) (x g : Vec K) (n : Nat) (hn : x.length = n) (hn0 : 0 < n)
    (hg : g.length = n) (hbox : InBoxF lb ub x) (hns : projgr x g lb ub ≠ 0)
    (hfloor : ∀ dd : Fin n → K, dd ≠ 0 →
      (∀ r, dd r = 0 ∨ dd r = vec n (cauchyD0 (breakpoints x g lb ub) g) r) →
      e * f2orgOf (kernelInput x g lb ub none e) ≤ 1 * (dd ⬝ᵥ dd)) :
    vec n g ⬝ᵥ (vec n (xbarModel lb ub e x g none) - vec n x) < 0 := by
  have hfit : fitTo x g = g := fitTo_eq x g (by rw [hg, hn])
  have hi : kernelInput x g lb ub none e =
      { x, g, lb, ub, theta := 1, W := x.map fun _ => [0], Minv := [[0]], useFactor := false, epsFsec := e } := by
    simp only [kernelInput, hfit]
  have hk : kOf (kernelInput x g lb ub none e) = 1 := by
    rw [hi]
    unfold kOf
    cases x with
    | nil => simp at hn; omega
    | cons a as => rfl
  have hrow : ∀ r, r < n → ((kernelInput x g lb ub none e).W.getD r []).length = 1 := by
    intro r hr
    rw [hi]
    have hrx : r < x.length := by rw [hn]; exact hr
    show ((x.map fun _ => ([0] : Vec K)).getD r []).length = 1
    rw [List.getD_eq_getElem?_getD, List.getElem?_map, List.getElem?_eq_getElem hrx]
    rfl
  have hc : MinCtx (kernelInput x g lb ub none e) n 1 (0 : Matrix (Fin 1) (Fin 1) K)
      (f2orgOf (kernelInput x g lb ub none e)) :=
    C08.minCtx_nopairs _ n 1 (by rw [hi]; exact hn) (by rw [hi]; exact hg) (by rw [hi]; simp [hn]) hrow
      (by rw [hi]) (by rw [hi]; exact one_pos) (by rw [hi]; exact hbox) _
      (by
        intro dd hne hpat
        have := hfloor dd hne (by rw [hi] at hpat; exact hpat)
        rw [hi] at this ⊢
        exact this)
  have hdec := C01.nonstationary_cauchy_decrease _ n 1 0 hk hc (by rw [hi]; exact hns)
  -- the subspace step
  have hcpbox : InBox lb ub (cauchy (kernelInput x g lb ub none e)).1 := by
    have := C08.gcp_in_box (kernelInput x g lb ub none e) (by rw [hi]; exact boxOk_of_inBox (C11.inBox_of_inBoxF hbox))
      (by rw [hi]; exact C11.inBox_of_inBoxF hbox) (by rw [hi]; simp [hg, hn])
    rw [hi] at this ⊢
    exact this
  have hcplen : (cauchy (kernelInput x g lb ub none e)).1.length = n := by
    rw [(inBox_length hcpbox).1, (inBox_length (C11.inBox_of_inBoxF hbox)).1.symm, hn]
  have hsub : SubCtx0 (subInOf (kernelInput x g lb ub none e)) n 1 := by
    refine ⟨?_, ?_, hcplen, ?_, ?_, ?_, ?_, ?_⟩
    · show (kernelInput x g lb ub none e).x.length = n; rw [hi]; exact hn
    · show (kernelInput x g lb ub none e).g.length = n; rw [hi]; exact hg
    · show (kernelInput x g lb ub none e).W.length = n; rw [hi]; simp [hn]
    · exact hrow
    · show InBoxF (kernelInput x g lb ub none e).lb (kernelInput x g lb ub none e).ub _
      rw [hi]; rw [hi] at hcpbox; exact inBoxF_of_inBox hcpbox
    · show (kernelInput x g lb ub none e).theta ≠ 0; rw [hi]; exact one_ne_zero
    · show (kernelInput x g lb ub none e).useFactor = false; rw [hi]
  have := C09.subspace_direction_descent_nopairs (subInOf (kernelInput x g lb ub none e)) n 1 hsub
    (by show 0 < (kernelInput x g lb ub none e).theta; rw [hi]; exact one_pos) hdec
  have e1 : (subInOf (kernelInput x g lb ub none e)).g = g := by
    show (kernelInput x g lb ub none e).g = g; rw [hi]
  have e2 : (subInOf (kernelInput x g lb ub none e)).x = x := by
    show (kernelInput x g lb ub none e).x = x; rw [hi]
  rw [e1, e2] at this
  exact this

section U2
variable {α : Type} [LinearOrder α] [Add α] [Sub α] [Mul α] [Div α] [Neg α] [OfNat α 0] [OfNat α 1]

section complete
variable {ε : Type} [FloatLike α] [Dcsrch.DcOps α]

/-- **C02 for the complete executable model** (`concreteOracles`: no kernel and no stepper left as an
oracle — the model `drv solve` runs natively against the package): every point at which a user
callable is invoked, every callback state and the result are inside the box. Hypotheses: the box
is well formed and has the size of `x0` (C02 `getBounds_ok`), the differencing contract (C16
`fd_points_in_box` for the model of the differencing), the checkpoint's point is the start. -/
theorem evals_in_box_complete (u : User α ε) (c : Cfg α) (e : α) (hbox : BoxOk c.lb c.ub)
    (hn : c.x0.length = c.lb.length)
    (hst : ∀ x f, InBox c.lb c.ub x → ∀ p ∈ u.fdPts x f, InBox c.lb c.ub p)
    (hck : ∀ ck, c.checkpoint = some ck → ck.x = clip c.x0 c.lb c.ub)
    (r : Result α) (s : St α) (h : minimize u (concreteOracles c.lb c.ub e) c = .ok (r, s)) :
    (∀ call ∈ s.sf.log, call.kind ≠ .ftarget → call.kind ≠ .gtol → InBox c.lb c.ub call.arg) ∧
    (∀ cb ∈ s.cbStates, InBox c.lb c.ub cb.x) ∧ InBox c.lb c.ub r.x :=
  C02.evals_in_box u (concreteOracles c.lb c.ub e) c
    ⟨hbox, hn, fun x g m hx => by
        have := xbarModel_inBox c.lb c.ub hbox e x g m hx
        show (xbarModel c.lb c.ub e x g m).length = x.length
        rw [(inBox_length this).1, (inBox_length hx).1], hst, hck⟩ r s h

end complete

end U2

end Lbfgsb

/-! ### Non-vacuity of `first_iteration_descent` (ℚ): x = (0,0), g = (−1, 2), box [−1,1]², floor constant 10⁻³⁰ -/
namespace Lbfgsb
open Matrix
section nonvacuous

theorem ex_f2org0 : f2orgOf (kernelInput ([0, 0] : Vec ℚ) [-1, 2] [-1, -1] [1, 1] none (1 / 10 ^ 30)) = 5 := by
  decide +kernel

example : vec 2 ([-1, 2] : Vec ℚ) ⬝ᵥ
    (vec 2 (xbarModel [-1, -1] [1, 1] (1 / 10 ^ 30) ([0, 0] : Vec ℚ) [-1, 2] none) - vec 2 ([0, 0] : Vec ℚ)) < 0 := by
  apply first_iteration_descent _ _ _ _ _ 2 rfl (by norm_num) rfl (by simp [InBoxF]) (by decide +kernel)
  intro dd hne hpat
  rw [ex_f2org0]
  have hd0 : cauchyD0 (breakpoints ([0, 0] : Vec ℚ) [-1, 2] [-1, -1] [1, 1]) [-1, 2] = [1, -2] := by decide +kernel
  rw [hd0] at hpat
  have h0 := hpat 0
  have h1 := hpat 1
  have e0 : vec 2 ([1, -2] : List ℚ) 0 = 1 := rfl
  have e1 : vec 2 ([1, -2] : List ℚ) 1 = -2 := rfl
  rw [e0] at h0
  rw [e1] at h1
  have hsum : dd ⬝ᵥ dd = dd 0 * dd 0 + dd 1 * dd 1 := by simp [dotProduct, Fin.sum_univ_two]
  rw [hsum]
  have : dd 0 ≠ 0 ∨ dd 1 ≠ 0 := by
    by_contra hcon
    push Not at hcon
    apply hne
    funext r
    fin_cases r
    · exact hcon.1
    · exact hcon.2
  rcases this with h | h
  · have h0' : dd 0 = 1 := h0.resolve_left h
    have := mul_self_nonneg (dd 1)
    rw [h0']; norm_num; nlinarith
  · have h1' : dd 1 = -2 := h1.resolve_left h
    have := mul_self_nonneg (dd 0)
    rw [h1']; norm_num; nlinarith

end nonvacuous
end Lbfgsb
