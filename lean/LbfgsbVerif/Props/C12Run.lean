/-
  C12 — run level: at every loop-head state a fresh run of the COMPLETE model reaches, if no bound interferes there
  (the Cauchy point is strictly inside the box and the quasi-Newton point is feasible) and the Fortran floor is inactive,
  the point the iteration aims its line search at is the L-BFGS quasi-Newton point of the stored history:
  `x − twoLoop(θ⁻¹ I, pairs)(g)` with a non-empty memory, `x − g` with an empty one (first iteration, or after a reset).

  Composition of C12 `complete_iteration_is_lbfgs` / `newton_point_is_two_loop_nopairs` (Props/C12Newton) with the run-level
  invariant `DInvS` of C01 (Props/C01Run: `fresh_dinv`, `reach_dinv`).
-/
import LbfgsbVerif.Props.C12Newton
import LbfgsbVerif.Props.C01Run

set_option linter.unusedSectionVars false

namespace Lbfgsb.C12
open Lbfgsb Matrix CompactKernel Lbfgsb.FullNewton Lbfgsb.C01
variable {K ε δ : Type} [Field K] [LinearOrder K] [IsStrictOrderedRing K]
attribute [local instance] fieldFloatLike

/-- the L-BFGS quasi-Newton point of a loop state: two-loop recursion on the stored pairs from `θ⁻¹ I`, or steepest descent -/
noncomputable def quasiNewtonPoint (s : St K) : Fin s.x.length → K :=
  vec s.x.length s.x -
    (if s.X.length > 1 then
      C18.twoLoop ((thetaOf s.X s.G)⁻¹ • (1 : Matrix (Fin s.x.length) (Fin s.x.length) K))
        (pairsOf s.x.length (diffs s.X) (diffs s.G)) (vec s.x.length s.g)
    else vec s.x.length s.g)

/-- no bound interferes at this state -/
def NoBound (c : Cfg K) (e : K) (s : St K) : Prop :=
  StrictIn c.lb c.ub (cauchy (kernelInput s.x s.g c.lb c.ub s.mats e)).1 ∧
  ∀ r : Fin s.x.length, vec s.x.length c.lb r ≤ quasiNewtonPoint s r ∧ quasiNewtonPoint s r ≤ vec s.x.length c.ub r

/-- iteration level, from the invariants of the memory -/
theorem lbfgs_from_memory_invariant (lb ub : Vec K) (e eps : K) (he : 0 ≤ eps) (x g : Vec K) (X G : List (Vec K))
    (hX : X.length > 1) (hXG : X.length = G.length) (hn : 0 < x.length)
    (hlX : AllLen x.length X) (hlG : AllLen x.length G) (hchain : CurvChain eps X G)
    (box : InBoxF lb ub x)
    (floor : ∀ dd : Fin x.length → K, dd ≠ 0 →
      (∀ r, dd r = 0 ∨ dd r = vec x.length (cauchyD0 (breakpoints x (fitTo x g) lb ub) (fitTo x g)) r) →
      e * f2orgOf (kernelInput x g lb ub (some (X, G)) e) ≤
        dd ⬝ᵥ (C10.bfgsChain ((thetaOf X G) • (1 : Matrix (Fin x.length) (Fin x.length) K))
          (pairsOf x.length (diffs X) (diffs G)) *ᵥ dd))
    (hint : StrictIn lb ub (cauchy (kernelInput x g lb ub (some (X, G)) e)).1)
    (hN : ∀ r : Fin x.length,
      vec x.length lb r ≤ (vec x.length x - C18.twoLoop ((thetaOf X G)⁻¹ • (1 : Matrix (Fin x.length) (Fin x.length) K))
        (pairsOf x.length (diffs X) (diffs G)) (vec x.length (fitTo x g))) r ∧
      (vec x.length x - C18.twoLoop ((thetaOf X G)⁻¹ • (1 : Matrix (Fin x.length) (Fin x.length) K))
        (pairsOf x.length (diffs X) (diffs G)) (vec x.length (fitTo x g))) r ≤ vec x.length ub r) :
    vec x.length (xbarModel lb ub e x g (some (X, G))) =
      vec x.length x - C18.twoLoop ((thetaOf X G)⁻¹ • (1 : Matrix (Fin x.length) (Fin x.length) K))
        (pairsOf x.length (diffs X) (diffs G)) (vec x.length (fitTo x g)) := by
  have hall := curv_hyps_of_chain x.length eps he X G hXG hlX hlG hchain
  have hdl : (diffs X).length = X.length - 1 := diffs_length X
  have hdg : (diffs G).length = X.length - 1 := by rw [diffs_length G, hXG]
  have hpos : 0 < (diffs X).length := by omega
  have hθ : 0 < thetaOf X G := by
    unfold thetaOf
    rw [getLast?_getD (diffs X) hpos, getLast?_getD (diffs G) (by omega)]
    simp only
    obtain ⟨hs, hy, -, h1, h2⟩ := hall ((diffs X).length - 1) (by omega)
    rw [hdg, ← hdl]
    rw [dot_vec x.length _ _ hy hy, dot_vec x.length _ _ hs hy]
    exact div_pos h2 h1
  exact complete_iteration_is_lbfgs lb ub e x g X G hX hXG hn (fun j hj => (hall j hj).1) (fun j hj => (hall j hj).2.1)
    (fun j hj => ⟨(hall j hj).2.2.1, (hall j hj).2.2.2.1⟩) hθ box floor hint hN

/-- **C12 (state level)** -/
theorem state_is_lbfgs [Dcsrch.DcOps K] (u : User K ε) (c : Cfg K) (e : K) (s : St K) (hi : DInvS u c s)
    (hbx : BoxOk c.lb c.ub) (hn : 0 < c.lb.length) (he : 0 ≤ c.epsSY)
    (hfl : FloorOK c e s) (hnb : NoBound c e s) :
    vec s.x.length ((concreteOracles c.lb c.ub e).xbar s.x s.g s.mats) = quasiNewtonPoint s := by
  have hfit : fitTo s.x s.g = s.g := fitTo_eq s.x s.g hi.glen
  have hbox : InBoxF c.lb c.ub s.x := by
    apply inBoxF_of_inBox
    rw [← hi.inbox]
    exact clip_inBox hbx s.x hi.xlen
  obtain ⟨hint, hN⟩ := hnb
  show vec s.x.length (xbarModel c.lb c.ub e s.x s.g s.mats) = quasiNewtonPoint s
  unfold quasiNewtonPoint at hN ⊢
  by_cases hX : s.X.length > 1
  · rw [hi.mats] at hint ⊢
    simp only [if_pos hX] at hint hN ⊢
    have := lbfgs_from_memory_invariant c.lb c.ub e c.epsSY he s.x s.g s.X s.G hX hi.hlen (by rw [hi.xlen]; exact hn)
      hi.lenX hi.lenG hi.chain hbox (by
        intro dd hne hpat
        rw [hfit] at hpat
        have := hfl dd hne hpat
        rw [if_pos hX, hi.mats, if_pos hX] at this
        exact this) hint (by rw [hfit]; exact hN)
    rw [hfit] at this
    exact this
  · rw [hi.mats] at hint ⊢
    simp only [if_neg hX] at hint hN ⊢
    have hxn : 0 < s.x.length := by rw [hi.xlen]; exact hn
    have key := newton_point_is_two_loop_nopairs (subInOf (kernelInput s.x s.g c.lb c.ub none e)) s.x.length 1 hxn
      rfl (by show (fitTo s.x s.g).length = s.x.length; exact fitTo_length s.x s.g) 
      (by
        have hb : InBoxF c.lb c.ub (cauchy (kernelInput s.x s.g c.lb c.ub none e)).1 := inBoxF_of_strict hint
        show (cauchy (kernelInput s.x s.g c.lb c.ub none e)).1.length = s.x.length
        rw [← (inBoxF_lengths hb).1, (inBoxF_lengths hbox).1])
      (by show (s.x.map fun _ => ([0] : Vec K)).length = s.x.length; simp)
      (by
        intro r hr
        show ((s.x.map fun _ => ([0] : Vec K)).getD r []).length = 1
        rw [List.getD_eq_getElem?_getD, List.getElem?_map, List.getElem?_eq_getElem hr]
        rfl)
      (by show (1 : K) ≠ 0; exact one_ne_zero) rfl hint
      (by
        show ∀ r : Fin s.x.length, vec s.x.length c.lb r ≤ (vec s.x.length s.x - (1 : K)⁻¹ • vec s.x.length (fitTo s.x s.g)) r ∧
          (vec s.x.length s.x - (1 : K)⁻¹ • vec s.x.length (fitTo s.x s.g)) r ≤ vec s.x.length c.ub r
        rw [hfit, inv_one, one_smul]; exact hN)
    have e1 : xbarModel c.lb c.ub e s.x s.g none = subspaceMin (subInOf (kernelInput s.x s.g c.lb c.ub none e)) := rfl
    rw [e1, key]
    show vec s.x.length s.x - (1 : K)⁻¹ • vec s.x.length (fitTo s.x s.g) = _
    rw [hfit, inv_one, one_smul]

open C06 in
/-- **C12 (every iteration of a fresh run of the complete model is an L-BFGS iteration while no bound interferes)** — fresh run, no
scaler, no update function, no target, constant `gtol`; well-formed box of the size of `x0`; gradients of the length of their
argument; `maxcor ≥ 1`, `eps ≥ 0`. At every loop-head state the run reaches at which no bound interferes and the floor is inactive,
the point `x̄` the composed kernel models return is the quasi-Newton point of the stored history. -/
theorem run_iteration_is_lbfgs [Dcsrch.DcOps K] (u : User K ε) (c : Cfg K) (e a : K)
    (hck : c.checkpoint = none) (hS : c.hasScaler = false) (hU : c.hasUpdate = false) (hT : c.ftarget = none)
    (hg : c.gtol = .const a) (hm : 1 ≤ c.maxcor) (hbox : BoxOk c.lb c.ub) (hx0 : c.x0.length = c.lb.length)
    (hn : 0 < c.lb.length) (he : 0 ≤ c.epsSY) (hgl : GradLen u c)
    (i0 : Init K) (s0 s : St K) (hi0 : initEval u c = .ok i0) (hp0 : prepare u c i0 = .ok s0)
    (hr : Reach u (concreteOracles c.lb c.ub e) c s0 s)
    (hfl : FloorOK c e s) (hnb : NoBound c e s) :
    vec s.x.length ((concreteOracles c.lb c.ub e).xbar s.x s.g s.mats) = quasiNewtonPoint s :=
  state_is_lbfgs u c e s
    (reach_dinv u _ c hU hm hbox hgl (xbarLen_concrete c e hbox) s0 s
      (fresh_dinv u c a hck hS hU hT hg hbox hx0 hgl i0 s0 hi0 hp0) hr)
    hbox hn he hfl hnb

/-! ### the same with the condition "no bound interferes" stated on the data of the state (non-empty memory) -/

/-- the unconstrained Cauchy step `gᵀg / gᵀBg` of a loop state, `B` the BFGS matrix of its stored pairs -/
noncomputable def cauchyStepLen (s : St K) : K :=
  (vec s.x.length s.g ⬝ᵥ vec s.x.length s.g) /
    (vec s.x.length s.g ⬝ᵥ (C10.bfgsChain ((thetaOf s.X s.G) • (1 : Matrix (Fin s.x.length) (Fin s.x.length) K))
      (pairsOf s.x.length (diffs s.X) (diffs s.G)) *ᵥ vec s.x.length s.g))

/-- no bound interferes, as a condition on the state's data: the segment from `x` to a little beyond the unconstrained Cauchy step lies in
the box, strictly at the step itself, and the quasi-Newton point is feasible -/
def NoBoundData (c : Cfg K) (s : St K) : Prop :=
  (∃ T, cauchyStepLen s < T ∧ InBoxF c.lb c.ub (vsub s.x (smul T s.g))) ∧
  StrictIn c.lb c.ub (vsub s.x (smul (cauchyStepLen s) s.g)) ∧
  ∀ r : Fin s.x.length, vec s.x.length c.lb r ≤ quasiNewtonPoint s r ∧ quasiNewtonPoint s r ≤ vec s.x.length c.ub r

/-- **C12 (state level, data only)** for a state with at least one stored pair and a non-zero gradient -/
theorem state_is_lbfgs_data [Dcsrch.DcOps K] (u : User K ε) (c : Cfg K) (e : K) (s : St K) (hi : DInvS u c s)
    (hbx : BoxOk c.lb c.ub) (hn : 0 < c.lb.length) (he : 0 ≤ c.epsSY) (hX : s.X.length > 1) (hg : vec s.x.length s.g ≠ 0)
    (hfl : FloorOK c e s) (hnb : NoBoundData c s) :
    vec s.x.length ((concreteOracles c.lb c.ub e).xbar s.x s.g s.mats) = quasiNewtonPoint s := by
  have hfit : fitTo s.x s.g = s.g := fitTo_eq s.x s.g hi.glen
  have hbox : InBoxF c.lb c.ub s.x := by
    apply inBoxF_of_inBox
    rw [← hi.inbox]
    exact clip_inBox hbx s.x hi.xlen
  obtain ⟨⟨T, hT, hTbox⟩, hstrict, hN⟩ := hnb
  show vec s.x.length (xbarModel c.lb c.ub e s.x s.g s.mats) = quasiNewtonPoint s
  unfold quasiNewtonPoint at hN ⊢
  unfold cauchyStepLen at hT hstrict
  rw [hi.mats]
  simp only [if_pos hX] at hN ⊢
  have hall := curv_hyps_of_chain s.x.length c.epsSY he s.X s.G hi.hlen hi.lenX hi.lenG hi.chain
  have hdl : (diffs s.X).length = s.X.length - 1 := diffs_length s.X
  have hdg : (diffs s.G).length = s.X.length - 1 := by rw [diffs_length s.G, hi.hlen]
  have hpos : 0 < (diffs s.X).length := by omega
  have hθ : 0 < thetaOf s.X s.G := by
    unfold thetaOf
    rw [getLast?_getD (diffs s.X) hpos, getLast?_getD (diffs s.G) (by omega)]
    simp only
    obtain ⟨hs, hy, -, h1, h2⟩ := hall ((diffs s.X).length - 1) (by omega)
    rw [hdg, ← hdl]
    rw [dot_vec s.x.length _ _ hy hy, dot_vec s.x.length _ _ hs hy]
    exact div_pos h2 h1
  have := complete_iteration_is_lbfgs_data c.lb c.ub e s.x s.g s.X s.G hX hi.hlen (by rw [hi.xlen]; exact hn)
    (fun j hj => (hall j hj).1) (fun j hj => (hall j hj).2.1) (fun j hj => ⟨(hall j hj).2.2.1, (hall j hj).2.2.2.1⟩) hθ hbox
    (by
      intro dd hne hpat
      rw [hfit] at hpat
      have := hfl dd hne hpat
      rw [if_pos hX, hi.mats, if_pos hX] at this
      exact this)
    (by rw [hfit]; exact hg) T (by rw [hfit]; exact hT) (by rw [hfit]; exact hTbox) (by rw [hfit]; exact hstrict)
    (by rw [hfit]; exact hN)
  rw [hfit] at this
  exact this

/-- no bound interferes at a state with an EMPTY memory (first iteration, after a reset), on the data: `B = I`, the unconstrained Cauchy
step is 1 and the quasi-Newton point is the Cauchy point `x − g` -/
def NoBoundData0 (c : Cfg K) (s : St K) : Prop :=
  (∃ T, 1 < T ∧ InBoxF c.lb c.ub (vsub s.x (smul T s.g))) ∧ StrictIn c.lb c.ub (vsub s.x (smul 1 s.g))

/-- **C12 (state level, data only, empty memory)**: the iteration aims at `x − g` -/
theorem state_is_lbfgs_data0 [Dcsrch.DcOps K] (u : User K ε) (c : Cfg K) (e : K) (s : St K) (hi : DInvS u c s)
    (hbx : BoxOk c.lb c.ub) (hn : 0 < c.lb.length) (he : 0 ≤ c.epsSY) (hX : ¬ s.X.length > 1) (hg : vec s.x.length s.g ≠ 0)
    (hfl : FloorOK c e s) (hnb : NoBoundData0 c s) :
    vec s.x.length ((concreteOracles c.lb c.ub e).xbar s.x s.g s.mats) = quasiNewtonPoint s := by
  have hfit : fitTo s.x s.g = s.g := fitTo_eq s.x s.g hi.glen
  have hbox : InBoxF c.lb c.ub s.x := by
    apply inBoxF_of_inBox
    rw [← hi.inbox]
    exact clip_inBox hbx s.x hi.xlen
  obtain ⟨⟨T, hT, hTbox⟩, hstrict⟩ := hnb
  have hxn : 0 < s.x.length := by rw [hi.xlen]; exact hn
  -- the kernel input of an empty memory
  have hki : kernelInput s.x s.g c.lb c.ub none e =
      { x := s.x, g := s.g, lb := c.lb, ub := c.ub, theta := 1, W := s.x.map fun _ => [0], Minv := [[0]], useFactor := false, epsFsec := e } := by
    simp only [kernelInput, hfit]
  have hmin : MinCtx (kernelInput s.x s.g c.lb c.ub none e) s.x.length 1 (0 : Matrix (Fin 1) (Fin 1) K)
      (f2orgOf (kernelInput s.x s.g c.lb c.ub none e)) := by
    apply C08.minCtx_nopairs _ s.x.length 1 (by rw [hki]) (by rw [hki]; exact hi.glen) (by rw [hki]; simp)
      (by
        intro r hr
        rw [hki]
        show ((s.x.map fun _ => ([0] : Vec K)).getD r []).length = 1
        rw [List.getD_eq_getElem?_getD, List.getElem?_map, List.getElem?_eq_getElem hr]
        rfl)
      (by rw [hki]) (by rw [hki]; exact one_pos) (by rw [hki]; exact hbox)
    intro dd hne hpat
    have := hfl dd hne (by rw [hki] at hpat; exact hpat)
    rw [if_neg hX, hi.mats, if_neg hX, one_mulVec] at this
    rw [hki]
    show e * _ ≤ (1 : K) * (dd ⬝ᵥ dd)
    rw [one_mul]
    rw [hki] at this
    exact this
  have hk : kOf (kernelInput s.x s.g c.lb c.ub none e) = 1 := by
    rw [hki]
    unfold kOf
    cases hxs : s.x with
    | nil => rw [hxs] at hxn; simp at hxn
    | cons a as => rfl
  have hB1 : ∀ v : Fin s.x.length → K,
      bmat (kernelInput s.x s.g c.lb c.ub none e).theta (wmat s.x.length 1 (kernelInput s.x s.g c.lb c.ub none e).W) (0 : Matrix (Fin 1) (Fin 1) K) *ᵥ v = v := by
    intro v
    rw [bmat_mulVec, zero_mulVec, mulVec_zero, sub_zero, hki, one_smul]
  have hgk : vec s.x.length (kernelInput s.x s.g c.lb c.ub none e).g = vec s.x.length s.g := by rw [hki]
  have hone : (vec s.x.length s.g ⬝ᵥ vec s.x.length s.g) / (vec s.x.length s.g ⬝ᵥ vec s.x.length s.g) = 1 :=
    div_self (ne_of_gt (dot_self_pos _ hg))
  have hstep := C08.cauchy_unconstrained_step (kernelInput s.x s.g c.lb c.ub none e) s.x.length 1 0 hk hmin
    (by rw [hgk]; exact hg) T (by rw [hB1, hgk, hone]; exact hT) (by rw [hki]; exact hTbox)
  rw [hB1, hgk, hone] at hstep
  have hstep' : (cauchy (kernelInput s.x s.g c.lb c.ub none e)).1 = vsub s.x (smul 1 s.g) := by rw [hstep, hki]
  -- the general state theorem, with its hypothesis on the Cauchy point discharged
  refine state_is_lbfgs u c e s hi hbx hn he hfl ⟨by rw [hi.mats, if_neg hX, hstep']; exact hstrict, ?_⟩
  intro r
  unfold quasiNewtonPoint
  rw [if_neg hX]
  have hb1 := inBoxF_of_strict hstrict
  have e1 : smul (1 : K) s.g = s.g := smul_one' s.g
  rw [e1] at hb1
  have hl : (vsub s.x s.g).length = s.x.length := by simp [vsub, vzip_length', hi.glen]
  rw [← vec_vsub s.x.length s.x s.g rfl hi.glen]
  exact inBoxF_getD hb1 r (by rw [hl]; exact r.2)

open C06 in
/-- **C12 (run level, data only)** at every loop-head state with stored pairs a fresh run of the complete model reaches -/
theorem run_iteration_is_lbfgs_data [Dcsrch.DcOps K] (u : User K ε) (c : Cfg K) (e a : K)
    (hck : c.checkpoint = none) (hS : c.hasScaler = false) (hU : c.hasUpdate = false) (hT : c.ftarget = none)
    (hg : c.gtol = .const a) (hm : 1 ≤ c.maxcor) (hbox : BoxOk c.lb c.ub) (hx0 : c.x0.length = c.lb.length)
    (hn : 0 < c.lb.length) (he : 0 ≤ c.epsSY) (hgl : GradLen u c)
    (i0 : Init K) (s0 s : St K) (hi0 : initEval u c = .ok i0) (hp0 : prepare u c i0 = .ok s0)
    (hr : Reach u (concreteOracles c.lb c.ub e) c s0 s)
    (hX : s.X.length > 1) (hgne : vec s.x.length s.g ≠ 0) (hfl : FloorOK c e s) (hnb : NoBoundData c s) :
    vec s.x.length ((concreteOracles c.lb c.ub e).xbar s.x s.g s.mats) = quasiNewtonPoint s :=
  state_is_lbfgs_data u c e s
    (reach_dinv u _ c hU hm hbox hgl (xbarLen_concrete c e hbox) s0 s
      (fresh_dinv u c a hck hS hU hT hg hbox hx0 hgl i0 s0 hi0 hp0) hr)
    hbox hn he hX hgne hfl hnb

/-! ### Boolean reflections, to exhibit the hypotheses on a concrete state -/

def inBoxB : Vec K → Vec K → Vec K → Bool
  | [], [], [] => true
  | l :: ls, u :: us, p :: ps => decide (l ≤ p) && decide (p ≤ u) && inBoxB ls us ps
  | _, _, _ => false

theorem inBoxF_of_B : ∀ (lb ub p : Vec K), inBoxB lb ub p = true → InBoxF lb ub p
  | [], [], [], _ => trivial
  | l :: ls, u :: us, q :: qs, h => by
    simp only [inBoxB, Bool.and_eq_true, decide_eq_true_eq] at h
    exact ⟨⟨h.1.1, h.1.2⟩, inBoxF_of_B ls us qs h.2⟩
  | [], [], _ :: _, h => by simp [inBoxB] at h
  | [], _ :: _, _, h => by simp [inBoxB] at h
  | _ :: _, [], _, h => by simp [inBoxB] at h
  | _ :: _, _ :: _, [], h => by simp [inBoxB] at h

/-- `NoBound` at a state with an empty memory, from list-level (decidable) facts -/
theorem noBound_nopairs (c : Cfg K) (e : K) (s : St K) (hX : ¬ s.X.length > 1) (hm : s.mats = none)
    (hgl : s.g.length = s.x.length)
    (h1 : StrictIn c.lb c.ub (cauchy (kernelInput s.x s.g c.lb c.ub none e)).1)
    (h2 : inBoxB c.lb c.ub (vsub s.x s.g) = true) : NoBound c e s := by
  refine ⟨by rw [hm]; exact h1, ?_⟩
  intro r
  unfold quasiNewtonPoint
  rw [if_neg hX, ← vec_vsub s.x.length s.x s.g rfl hgl]
  have hb := inBoxF_of_B _ _ _ h2
  have hl : (vsub s.x s.g).length = s.x.length := by simp [vsub, vzip_length', hgl]
  exact inBoxF_getD hb r (by rw [hl]; exact r.2)

end Lbfgsb.C12

/-! ### Non-vacuity (ℚ): the instance of `C06Sim` (`f = ½|x|²` on `[−2,2]²` from `(1,1)`), complete model, no floor: at the state the
run enters its loop with, no bound interferes (the Cauchy point `(0,0)` is strictly inside the box and so is `x − g = (0,0)`) and
`run_iteration_is_lbfgs` applies. -/
namespace Lbfgsb.C12
open Lbfgsb Matrix C06 C01 Lbfgsb.FullNewton
section nonvacuous
attribute [local instance] fieldFloatLike

theorem bpOrder_two : bpOrder ([some 3, some 3] : List (Option ℚ)) = [0, 1] := by
  simp [bpOrder, bpPos, List.range, List.range.loop, List.filter]
  simp [List.mergeSort, List.MergeSort.Internal.splitInTwo, bpLe]

def exI : CauchyIn ℚ := kernelInput [1, 1] [1, 1] [-2, -2] [2, 2] none (0 : ℚ)
theorem ex_bp : breakpoints exI.x exI.g exI.lb exI.ub = [some 3, some 3] := by decide +kernel
/-- the Cauchy point of the first iteration of the instance (the sort of the breakpoints is by well-founded recursion, which the
kernel does not unfold: it is evaluated by `simp`, the rest by the kernel) -/
theorem ex_cauchy : (cauchy exI).1 = [0, 0] := by
  unfold cauchy
  simp only [ex_bp, bpOrder_two]
  decide +kernel

def nbCheck : Bool :=
  match initEval simUser simCfg with
  | .ok i0 =>
    match prepare simUser simCfg i0 with
    | .ok s0 => decide (s0.X.length = 1) && s0.mats.isNone && decide (s0.x = [1, 1]) && decide (s0.g = [1, 1]) &&
        inBoxB simCfg.lb simCfg.ub (vsub s0.x s0.g)
    | _ => false
  | _ => false

theorem nbCheck_true : nbCheck = true := by decide +kernel

example : ∃ s0 : St ℚ,
    vec s0.x.length ((concreteOracles simCfg.lb simCfg.ub 0).xbar s0.x s0.g s0.mats) = quasiNewtonPoint s0 := by
  have h := nbCheck_true
  unfold nbCheck at h
  split at h
  · rename_i i0 hi0
    split at h
    · rename_i s0 hp0
      simp only [Bool.and_eq_true, decide_eq_true_eq, Option.isNone_iff_eq_none] at h
      obtain ⟨⟨⟨⟨hX, hm⟩, hx⟩, hgv⟩, h2⟩ := h
      have hgl : s0.g.length = s0.x.length := by rw [hx, hgv]
      have h1 : StrictIn simCfg.lb simCfg.ub (cauchy (kernelInput s0.x s0.g simCfg.lb simCfg.ub none 0)).1 := by
        rw [hx, hgv]
        show StrictIn [-2, -2] [2, 2] (cauchy exI).1
        rw [ex_cauchy]
        simp [StrictIn]
      refine ⟨s0, run_iteration_is_lbfgs simUser simCfg 0 (1 / 1000) rfl rfl rfl rfl rfl (by decide)
        (by simp only [simCfg, BoxOk]; norm_num) rfl (by decide) (le_refl _)
        (by intro x g h; simp only [gradSpec, simCfg, simUser, Except.ok.injEq] at h; rw [← h])
        i0 s0 s0 hi0 hp0 Reach.refl ?_ (noBound_nopairs simCfg 0 s0 (by omega) hm hgl h1 h2)⟩
      intro dd _ _
      rw [zero_mul, if_neg (by omega), one_mulVec]
      exact Finset.sum_nonneg fun j _ => mul_self_nonneg (dd j)
    · simp at h
  · simp at h

/-- the data-only form at the same state: no evaluation of the model's Cauchy routine is needed to see that no bound interferes
(`x − 2g = (−1, −1)` is in the box, `x − g = (0, 0)` strictly) -/
example : ∃ s0 : St ℚ,
    vec s0.x.length ((concreteOracles simCfg.lb simCfg.ub 0).xbar s0.x s0.g s0.mats) = quasiNewtonPoint s0 := by
  have h := nbCheck_true
  unfold nbCheck at h
  split at h
  · rename_i i0 hi0
    split at h
    · rename_i s0 hp0
      simp only [Bool.and_eq_true, decide_eq_true_eq, Option.isNone_iff_eq_none] at h
      obtain ⟨⟨⟨⟨hX, hm⟩, hx⟩, hgv⟩, h2⟩ := h
      have hdinv := fresh_dinv simUser simCfg (1 / 1000) rfl rfl rfl rfl rfl (by simp only [simCfg, BoxOk]; norm_num) rfl
        (by intro x g h; simp only [gradSpec, simCfg, simUser, Except.ok.injEq] at h; rw [← h]) i0 s0 hi0 hp0
      refine ⟨s0, state_is_lbfgs_data0 simUser simCfg 0 s0 hdinv (by simp only [simCfg, BoxOk]; norm_num) (by decide) (le_refl _)
        (by omega) ?_ ?_ ⟨⟨2, by norm_num, ?_⟩, ?_⟩⟩
      · rw [hx, hgv]
        intro e
        have := congrFun e ⟨0, by decide⟩
        simp [vec] at this
      · intro dd _ _
        rw [zero_mul, if_neg (by omega), one_mulVec]
        exact Finset.sum_nonneg fun j _ => mul_self_nonneg (dd j)
      · rw [hx, hgv]
        simp [simCfg, InBoxF, vsub, smul, vzip]
        norm_num
      · rw [hx, hgv]
        simp [simCfg, StrictIn, vsub, smul, vzip]
    · simp at h
  · simp at h

end nonvacuous
end Lbfgsb.C12
