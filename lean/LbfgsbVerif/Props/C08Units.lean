/-
  C08 — the Cauchy point does not depend on the units.

  `cauchy_units` (Proofs/Units): two inputs that describe the same problem in other units — objective multiplied by `a > 0`,
  variables by `b > 0`: `x' = b x`, `g' = (a/b) g`, `lb' = b lb`, `ub' = b ub`, and models related by `B' = (a/b²) B` — and for which
  the context of `gcp_first_local_min` holds, have Cauchy points related by `x_cp' = b x_cp`. Proof: the model value along the
  projected path of the second input is `a` times that of the first at the rescaled parameter; a first local minimiser is carried
  to a first local minimiser; the first local minimiser is unique (`firstLocalMin_unique`).
  `cauchy_units_nofactor`: with an empty memory (`B = θ I`, first iteration and after a reset) the context holds by itself for
  `θ > 0`, so the statement holds for EVERY feasible input and every pair of positive factors — in particular a threshold in the
  routine that is absolute instead of relative to the scale of the problem (seeded change C08-h) contradicts it.
  The harness runs the same comparison on the real routine, with power-of-two factors for which floating point is exact too.
-/
import LbfgsbVerif.Proofs.Units

set_option linter.unusedSectionVars false

namespace Lbfgsb.C08
open Lbfgsb Matrix Lbfgsb.Units
variable {K : Type} [Field K] [LinearOrder K] [IsStrictOrderedRing K]

/-- **C08 (units)** -/
theorem cauchy_point_units (a b : K) (ha : 0 < a) (hb : 0 < b) (i i' : CauchyIn K) (n k k' : Nat)
    (Mm : Matrix (Fin k) (Fin k) K) (Mm' : Matrix (Fin k') (Fin k') K) (h : SameProblem a b i i')
    (hk : kOf i = k) (hc : MinCtx i n k Mm (f2orgOf i)) (hk' : kOf i' = k') (hc' : MinCtx i' n k' Mm' (f2orgOf i'))
    (hB : bmat i'.theta (wmat n k' i'.W) Mm' = (a / (b * b)) • bmat i.theta (wmat n k i.W) Mm) :
    (cauchy i').1 = smul b (cauchy i).1 :=
  cauchy_units a b ha hb i i' n k k' Mm Mm' h hk hc hk' hc' hB

/-- **C08 (units, empty memory)** for every feasible input without pairs, every `θ > 0` and every pair of positive factors (no floor:
`epsFsec = 0`, as in exact arithmetic the Fortran safeguard has no role) -/
theorem cauchy_units_nofactor (a b : K) (ha : 0 < a) (hb : 0 < b) (i i' : CauchyIn K) (n : Nat)
    (h : SameProblem a b i i') (hθ : 0 < i.theta) (hθ' : i'.theta = a / (b * b) * i.theta)
    (hx : i.x.length = n) (hg : i.g.length = n) (hW : i.W.length = n) (hW' : i'.W.length = n)
    (hrow : ∀ r, r < n → (i.W.getD r []).length = kOf i) (hrow' : ∀ r, r < n → (i'.W.getD r []).length = kOf i')
    (huf : i.useFactor = false) (huf' : i'.useFactor = false) (he : i.epsFsec = 0) (he' : i'.epsFsec = 0)
    (hbox : InBoxF i.lb i.ub i.x) :
    (cauchy i').1 = smul b (cauchy i).1 := by
  have hc0 : 0 < a / (b * b) := div_pos ha (mul_pos hb hb)
  have hx' : i'.x.length = n := by rw [h.hx, smul_length, hx]
  have hg' : i'.g.length = n := by rw [h.hg, smul_length, hg]
  have hbox' : InBoxF i'.lb i'.ub i'.x := by
    rw [h.hlb, h.hub, h.hx]
    exact inBoxF_smul b hb _ _ _ hbox
  have hc := minCtx_nopairs i n (kOf i) hx hg hW hrow huf hθ hbox (f2orgOf i) (by
    intro dd hne _
    rw [he, zero_mul]
    exact mul_nonneg (le_of_lt hθ) (Finset.sum_nonneg fun j _ => mul_self_nonneg (dd j)))
  have hc' := minCtx_nopairs i' n (kOf i') hx' hg' hW' hrow' huf' (by rw [hθ']; exact mul_pos hc0 hθ) hbox' (f2orgOf i') (by
    intro dd hne _
    rw [he', zero_mul]
    exact mul_nonneg (by rw [hθ']; exact le_of_lt (mul_pos hc0 hθ)) (Finset.sum_nonneg fun j _ => mul_self_nonneg (dd j)))
  apply cauchy_units a b ha hb i i' n (kOf i) (kOf i') 0 0 h rfl hc rfl hc'
  unfold bmat
  rw [hθ']
  simp only [Matrix.mul_zero, Matrix.zero_mul, sub_zero, smul_smul]

/-! ### Non-vacuity (ℚ): `x = 0`, `g = (−1, 2)`, box `[−1, 1]²`, `θ = 1`; the same problem with the objective multiplied by 3 and the
variables by 5 (neither a power of two: the field is exact): `g' = (−3/5, 6/5)`, box `[−5, 5]²`, `θ' = 3/25`. -/
section nonvacuous

def uI : CauchyIn ℚ :=
  { x := [0, 0], g := [-1, 2], lb := [-1, -1], ub := [1, 1], theta := 1, W := [[0], [0]], Minv := [[0]], useFactor := false, epsFsec := 0 }
def uI' : CauchyIn ℚ :=
  { x := [0, 0], g := [-3 / 5, 6 / 5], lb := [-5, -5], ub := [5, 5], theta := 3 / 25, W := [[0], [0]], Minv := [[0]], useFactor := false,
    epsFsec := 0 }

example : (cauchy uI').1 = smul 5 (cauchy uI).1 :=
  cauchy_units_nofactor 3 5 (by norm_num) (by norm_num) uI uI' 2
    ⟨by decide +kernel, by decide +kernel, by decide +kernel, by decide +kernel⟩ (by norm_num [uI]) (by norm_num [uI, uI'])
    rfl rfl rfl rfl
    (by intro r hr; match r, hr with | 0, _ => rfl | 1, _ => rfl)
    (by intro r hr; match r, hr with | 0, _ => rfl | 1, _ => rfl)
    rfl rfl rfl rfl (by simp [uI, InBoxF])

end nonvacuous

end Lbfgsb.C08
