/-
  C07 — the callback state is a faithful snapshot usable as a crash checkpoint.

  Level U, and in fact order-free: the theorems below are plain equational facts about the
  driver, valid for every scalar type, every user callable, every kernel / stepper oracle.

  * `callback_state_eq_run_k`: every state handed to the callback, say after iteration `k`,
    agrees on `x, fun, jac, nfev, njev, nit` and the correction pairs with the result of the
    same run limited to `maxiter = k` — for every `k`, i.e. every crash point.
  * `maxiter_only_in_guard`: `maxiter` occurs only in the loop guard and the final
    classification (definitional).
  * `snapshot_is_value`: the states already handed to the callback are never modified by the
    rest of the run (the recorded list only grows at its end); that the Python objects are not
    aliased by arrays the solver keeps writing into is decided by the correspondence check, which
    compares the retained states as they look at the end of the run with the model's values.
  * `callback_false_transparent`: a callback that always answers "go on" does not alter the run:
    the result with the callback equals the result without it (all fields, pairs included), for
    every objective, kernel, stepper and configuration — by a non-interference proof over the
    whole driver (Proofs/Ghost.lean: the call log and the list of callback states are ghost: every
    operation maps states equal up to these logs to results equal up to these logs).
  Continuation after a crash = restart from the snapshot: C06.
-/
import LbfgsbVerif.Proofs.C07
import LbfgsbVerif.Proofs.Ghost

namespace Lbfgsb.C07
open Lbfgsb
variable {α ε δ : Type}
variable [Add α] [Sub α] [Mul α] [Div α] [Neg α] [LT α] [DecidableLT α] [OfNat α 0] [OfNat α 1]
  [FloatLike α]

/-- **C07 (1)** `maxiter` is used by the guard and the classification only. -/
theorem maxiter_only_in_guard (u : User α ε) (o : Oracles α δ) (c : Cfg α) (k : Nat) :
    (∀ s, iterBody u o { c with maxiter := k } s = iterBody u o c s) ∧
    initEval u { c with maxiter := k } = initEval u c ∧
    (∀ i, prepare u { c with maxiter := k } i = prepare u c i) :=
  ⟨fun _ => rfl, rfl, fun _ => rfl⟩

/-- **C07 (2) — every callback state is the result of the run cut at that iteration.**
If a run hands the state `cb` to the callback, then the same call with `maxiter = cb.nit`
succeeds and returns a result with the same `x, fun, jac, nfev, njev, nit, sk, yk`. -/
theorem callback_state_eq_run_k (u : User α ε) (o : Oracles α δ) (c : Cfg α)
    (rA : Result α) (sA : St α) (hA : minimize u o c = .ok (rA, sA))
    (cb : Result α) (hcb : cb ∈ sA.cbStates) :
    ∃ rB sB, minimize u o { c with maxiter := cb.nit } = .ok (rB, sB) ∧ SameSnapshot cb rB := by
  unfold minimize at hA
  simp only [bind, Except.bind] at hA
  split at hA
  · simp at hA
  · rename_i i hi
    split at hA
    · -- stopped at once on the target: no callback state at all
      simp only [pure, Except.pure] at hA
      injection hA with hA
      unfold earlyResult at hA
      split at hA <;> (injection hA with _ h2; subst h2; simp [Init.state] at hcb)
    · rename_i ht
      split at hA
      · simp at hA
      · rename_i s0 hs0
        split at hA
        · simp at hA
        · rename_i s1 hs1
          simp only [pure, Except.pure] at hA
          injection hA with hA; injection hA with h1 h2
          subst h2
          rw [classify_cbs] at hcb
          obtain ⟨news, hnews, -, hok⟩ := mainLoop_cbs u o c _ s0 s1 hs1
          rw [hnews, prepare_cbs7 u c i s0 hs0] at hcb
          simp only [List.nil_append] at hcb
          obtain ⟨hlt, hB⟩ := hok cb hcb
          obtain ⟨sB, hsB, -, hsnap⟩ := hB (cb.nit - s0.nit) (by omega)
          refine ⟨(classify { c with maxiter := cb.nit } sB).result, classify { c with maxiter := cb.nit } sB, ?_,
            classify_snapshot { c with maxiter := cb.nit } sB cb hsnap⟩
          unfold minimize
          simp only [bind, Except.bind]
          rw [initEval_indep_maxiter, hi]
          simp only [ht, Bool.false_eq_true, if_false]
          rw [prepare_indep_maxiter, hs0]
          simp only [hsB, pure, Except.pure]

/-- **C07 (3)** the states already handed to the callback are never touched again: whatever
the rest of the run does (any number of further iterations, from any state), the list of
recorded states only grows at its end. -/
theorem snapshot_is_value (u : User α ε) (o : Oracles α δ) (c : Cfg α) (fuel : Nat) (s s' : St α)
    (h : mainLoop u o c fuel s = .ok s') : s.cbStates <+: s'.cbStates := by
  obtain ⟨news, h1, -, -⟩ := mainLoop_cbs u o c fuel s s' h
  exact ⟨news, h1.symm⟩

/-- **C07 (4)** the presence of a callback that returns `False` does not alter the run. -/
theorem callback_false_transparent (u : User α ε) (o : Oracles α δ) (c : Cfg α)
    (hcb : ∀ r, u.callback r = .ok false) :
    (minimize u o { c with hasCallback := true }).map (·.1) =
    (minimize u o { c with hasCallback := false }).map (·.1) :=
  minimize_cb u o hcb c true false

/-! ### Non-vacuity -/
section nonvacuous
instance : FloatLike Int := ⟨id, fun _ => true⟩

def uZ : User Int String where
  F x := .ok (dot x x)
  Gr x := .ok (smul 2 x)
  fdPts _ _ := []
  fdComb _ _ _ := []
  callback _ := .ok false
  update i := .ok ⟨i.f0, i.f0Old, i.grad, i.G⟩
  scaler _ _ := .ok 1
  ftargetFn _ := .ok (-5)
  gtolFn _ := .ok 0

def oZ : Oracles Int Nat where
  xbar x _ _ := x.map (· - 1)
  dcNew _ _ _ _ _ _ := 0
  dcIter n stp _ _ _ := if n = 0 then (1, stp, .fg) else (n + 1, stp, .conv)

def cZ : Cfg Int :=
  { x0 := [3, 2], lb := [-10, -10], ub := [10, 10], mode := .callable, maxcor := 3, maxiter := 2,
    maxfun := 20, maxls := 4, ftol := 0, gtol := .const 0, ftarget := none, maxStep := 100,
    ftolLS := 0, gtolLS := 1, xtolLS := 0, epsSY := 0, hasCallback := true, hasUpdate := false,
    hasScaler := false, checkpoint := none }

/-- two crash points; the second state is `x = [1, 0]`, `nit = 2` -/
example : ∃ r s, minimize uZ oZ cZ = .ok (r, s) ∧ s.cbStates.map (·.nit) = [1, 2] ∧
    (s.cbStates.map (·.x))[1]? = some [1, 0] := by
  refine ⟨_, _, rfl, ?_⟩
  decide

end nonvacuous

end Lbfgsb.C07
