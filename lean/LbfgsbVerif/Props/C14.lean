/-
  C14 — runs are deterministic, isolated from each other, and do not touch their inputs.

  Three layers.

  (1) Isolation is a statement about *schedules*: `interleaving_independent` — when two runs
  are state machines over their own states (each step of run 1 reads and writes only the first
  component, each step of run 2 only the second), every interleaving of their steps — any
  schedule whatsoever, of any length — ends in the pair of states the two runs reach alone.
  Nesting is the special case of a schedule that inserts all of run 2 between two steps of
  run 1 (`nested_independent`).
  (2) That the package's runs ARE such machines — that there is no state outside the per-call
  objects — is read off the source on every run by the translator `translate/state2lean.py`
  (tables `Generated.State.globals/defaults/display`) and checked here by kernel evaluation:
    * `no_shared_mutable_state`: no module-level or class-level mutable object, memoised
      function or function attribute is written by package code;
    * `no_mutable_default_written`: no parameter with a mutable default is written, and the only
      callee such a default is handed to is the legacy Fortran line search
      `sp.optimize.minpack2.dcsrch`, which the code reaches only for SciPy < 1.12 (the harness
      asserts the installed SciPy is newer on every run);
    * `inputs_not_written`: the entry point contains no in-place write on its array inputs or
      on direct aliases of them;
    * `display_is_read_only`: no block guarded by `iprint`/`logger`, and no display helper,
      assigns a name that is read elsewhere, modifies anything in place, or transfers control —
      so `iprint` and `logger` cannot influence a numerical output; `display_evaluates_nothing`: nor does
      such code call anything that can reach a user callable (no evaluation is made for a message).
  (3) Determinism: the driver model `minimize` is a function of its inputs and of the answers
  of the user's callables and of the numerical kernels — `run_is_a_function` — and the
  correspondence check replays every explored run (with `iprint` and `logger` drawn at random,
  which the model does not even take as inputs) bit for bit through that function. What the
  theorems cannot exclude — a write into a caller's array through an alias, a kernel keeping
  state in C — is decided by the search: frozen (read-only) inputs, repeated / interleaved
  (threads, enumerated schedules) / nested calls compared bit for bit.
-/
import LbfgsbVerif.Generated.State
import LbfgsbVerif.Model.Shell

namespace Lbfgsb.C14
open Lbfgsb

/-! ### (1) interleavings -/
section schedules
variable {S₁ S₂ : Type}

/-- run the two machines under a schedule: `true` = one step of run 1, `false` = one step of
run 2 (a run that has finished ignores further steps: `step` is then the identity on it) -/
def interleave (step₁ : S₁ → S₁) (step₂ : S₂ → S₂) : List Bool → S₁ × S₂ → S₁ × S₂
  | [], s => s
  | true :: rest, s => interleave step₁ step₂ rest (step₁ s.1, s.2)
  | false :: rest, s => interleave step₁ step₂ rest (s.1, step₂ s.2)

def iter {S : Type} (f : S → S) : Nat → S → S
  | 0, s => s
  | n + 1, s => iter f n (f s)

/-- **C14 (1)** for every schedule, the interleaved execution ends where the two solo
executions end: run 1 after as many steps as the schedule gives it, run 2 likewise. -/
theorem interleaving_independent (step₁ : S₁ → S₁) (step₂ : S₂ → S₂) (sched : List Bool)
    (s : S₁ × S₂) :
    interleave step₁ step₂ sched s =
      (iter step₁ (sched.count true) s.1, iter step₂ (sched.count false) s.2) := by
  induction sched generalizing s with
  | nil => rfl
  | cons b rest ih =>
    cases b
    · simp only [interleave, ih, List.count_cons, beq_self_eq_true, if_true]
      simp [iter]
    · simp only [interleave, ih, List.count_cons, beq_self_eq_true, if_true]
      simp [iter]

/-- two schedules that give each run the same number of steps are indistinguishable -/
theorem schedule_irrelevant (step₁ : S₁ → S₁) (step₂ : S₂ → S₂) (a b : List Bool) (s : S₁ × S₂)
    (h1 : a.count true = b.count true) (h2 : a.count false = b.count false) :
    interleave step₁ step₂ a s = interleave step₁ step₂ b s := by
  rw [interleaving_independent, interleaving_independent, h1, h2]

/-- **C14 (1')** nesting: all `m` steps of run 2 executed inside step `k + 1` of run 1. -/
theorem nested_independent (step₁ : S₁ → S₁) (step₂ : S₂ → S₂) (k m r : Nat) (s : S₁ × S₂) :
    interleave step₁ step₂ (List.replicate k true ++ List.replicate m false ++ List.replicate r true) s =
      (iter step₁ (k + r) s.1, iter step₂ m s.2) := by
  rw [interleaving_independent]
  simp [List.count_append, List.count_replicate]

end schedules

/-! ### (2) no state outside the per-call objects (tables regenerated from the source) -/
open Generated.State

/-- **C14 (2a)** no module-level or class-level mutable object, cache or function attribute is written. -/
theorem no_shared_mutable_state : ∀ g ∈ globals, g.writes = [] := by decide

/-- **C14 (2b)** no mutable default is written by the package, and the only callee one is handed
to is the legacy (SciPy < 1.12) Fortran line search. -/
theorem no_mutable_default_written :
    ∀ d ∈ defaults, d.writes = [] ∧ ∀ e ∈ d.escapes, e = "sp.optimize.minpack2.dcsrch" := by decide

/-- **C14 (2c)** display code is read-only: nothing assigned under an `iprint`/`logger` guard is
read elsewhere, nothing is modified in place there, no control transfer happens there, and the
display helpers do not write into their arguments. -/
theorem display_is_read_only :
    ∀ d ∈ display, d.leaks = [] ∧ d.writes = [] ∧ d.jumps = [] := by decide

/-- **C14 (2c′)** display code evaluates nothing: no block guarded by `iprint`/`logger` and no display helper calls a function that
can reach a user callable (conservative name-based call graph, nested functions such as the line search's `phi` included) — what is
displayed costs no evaluation, so the evaluation cap of a line search (C11) and the counters (C05, C15) do not depend on the display
level either. -/
theorem display_evaluates_nothing : ∀ d ∈ display, d.evals = [] := by decide

/-- **C14 (2d)** `minimize_lbfgsb` performs no in-place modification of `x0`, `bounds`, `checkpoint`,
`args`, nor of a name bound directly to one of them or to one of the checkpoint's arrays (the
defect repaired by "do not scale the checkpoint's gradient in place" makes this table non-empty).
Flow-insensitive and syntactic: deeper aliasing is covered by the frozen-input search. -/
theorem inputs_not_written : inputWrites = [] := by decide

/-! ### (3) determinism of the model -/
section det
variable {α ε δ : Type} [Add α] [Sub α] [Mul α] [Div α] [Neg α] [LT α] [DecidableLT α]
  [OfNat α 0] [OfNat α 1] [FloatLike α]

/-- **C14 (3)** the driver is a function: equal inputs, equal answers of the user's callables
and of the kernels ⇒ equal results (in particular two restarts from one checkpoint). Neither
`iprint` nor the logger is an input of the model. -/
theorem run_is_a_function (u u' : User α ε) (o o' : Oracles α δ) (c c' : Cfg α)
    (hu : u = u') (ho : o = o') (hc : c = c') : minimize u o c = minimize u' o' c' := by
  subst hu; subst ho; subst hc; rfl

end det

/-! ### Non-vacuity: counters as machines, schedule TFTTF gives run 1 three steps, run 2 two. -/
example : interleave (· + 1) (· + 10) [true, false, true, true, false] ((0 : Nat), (0 : Nat)) = (3, 20) := by
  decide
example : globals ≠ [] ∧ defaults ≠ [] ∧ display.length > 10 := by decide

end Lbfgsb.C14
