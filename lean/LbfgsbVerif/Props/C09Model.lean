/-
  C09 — the subspace step never increases the model value, and the resulting search direction is a
  descent direction (level F: ordered field, Mathlib vectors).

  `m(z) = gᵀz + ½ zᵀBz` with `B` symmetric. Let `z_c = x_cp − x`, `u` the subspace step before
  truncation (zero on the active variables, solving the reduced Newton system on the free ones:
  `(B(z_c + u) + g)_i = 0` for every free `i` — for the direction the code computes this is C09
  `smw_direction`), `0 ≤ α ≤ 1` the truncation factor (C09 `alpha_star_feasible`), `x̄ − x = z_c + α u`.
    * `subspace_no_increase`: `m(z_c + α u) ≤ m(z_c)` (needs only `uᵀBu ≥ 0`);
    * `descent_of_decrease`: `m(d) < 0` and `dᵀBd ≥ 0` give `gᵀd < 0`;
    * `direction_descent`: hence, whenever the Cauchy step strictly decreased the model
      (C08 `gcp_model_lt`: whenever the projected steepest-descent direction is non-zero),
      `d = x̄ − x` satisfies `gᵀd < 0`.
-/
import LbfgsbVerif.Proofs.CauchyMin
import LbfgsbVerif.Props.C09

namespace Lbfgsb.C09
open Lbfgsb Matrix
variable {K : Type} [Field K] [LinearOrder K] [IsStrictOrderedRing K] {n : Nat}

/-- a step that is zero on the active variables and solves the Newton system on the free ones is
conjugate to the gradient of the model at its end point -/
theorem masked_newton_condition (G : Fin n → K) (B : Matrix (Fin n) (Fin n) K) (z u : Fin n → K)
    (free : Fin n → Bool) (hact : ∀ r, free r = false → u r = 0)
    (hnewton : ∀ r, free r = true → (G + B *ᵥ (z + u)) r = 0) :
    u ⬝ᵥ (G + B *ᵥ (z + u)) = 0 := by
  unfold dotProduct
  apply Finset.sum_eq_zero
  intro r _
  cases hf : free r with
  | false => rw [hact r hf, zero_mul]
  | true => rw [hnewton r hf, mul_zero]

/-- **C09 (model value)** moving from `z` along the Newton step `u` by any factor `0 ≤ α ≤ 1`
(indeed `≤ 2`) does not increase the quadratic model -/
theorem subspace_no_increase (G : Fin n → K) (B : Matrix (Fin n) (Fin n) K) (hB : Bᵀ = B)
    (z u : Fin n → K) (hu : u ⬝ᵥ (G + B *ᵥ (z + u)) = 0) (hpsd : 0 ≤ u ⬝ᵥ (B *ᵥ u))
    (α : K) (h0 : 0 ≤ α) (h1 : α ≤ 1) :
    qmodel G B (z + α • u) ≤ qmodel G B z := by
  rw [qmodel_line G B hB z u α]
  have e : G ⬝ᵥ u + u ⬝ᵥ (B *ᵥ z) = -(u ⬝ᵥ (B *ᵥ u)) := by
    rw [dotProduct_add, mulVec_add, dotProduct_add, dotProduct_comm u G] at hu
    linarith
  rw [e]
  have : 0 ≤ α * (1 - α / 2) * (u ⬝ᵥ (B *ᵥ u)) :=
    mul_nonneg (mul_nonneg h0 (by linarith)) hpsd
  nlinarith [this]

/-- **C09 (descent)** a displacement with a negative model value, for a positive semi-definite
model, is a descent direction of the objective (`g` is its gradient at `x`) -/
theorem descent_of_decrease (G : Fin n → K) (B : Matrix (Fin n) (Fin n) K) (d : Fin n → K)
    (hneg : qmodel G B d < 0) (hpsd : 0 ≤ d ⬝ᵥ (B *ᵥ d)) : G ⬝ᵥ d < 0 := by
  unfold qmodel at hneg
  have : 0 ≤ (1 / 2 : K) * (d ⬝ᵥ (B *ᵥ d)) := mul_nonneg (by norm_num) hpsd
  linarith

/-- **C09 (search direction)** Cauchy step with strict model decrease, then a truncated Newton
step on the free variables: `d = x̄ − x` is a descent direction -/
theorem direction_descent (G : Fin n → K) (B : Matrix (Fin n) (Fin n) K) (hB : Bᵀ = B)
    (hpsd : ∀ a : Fin n → K, 0 ≤ a ⬝ᵥ (B *ᵥ a))
    (zc u : Fin n → K) (free : Fin n → Bool) (hact : ∀ r, free r = false → u r = 0)
    (hnewton : ∀ r, free r = true → (G + B *ᵥ (zc + u)) r = 0)
    (hc : qmodel G B zc < 0) (α : K) (h0 : 0 ≤ α) (h1 : α ≤ 1) :
    G ⬝ᵥ (zc + α • u) < 0 := by
  have hu := masked_newton_condition G B zc u free hact hnewton
  have := subspace_no_increase G B hB zc u hu (hpsd u) α h0 h1
  exact descent_of_decrease G B _ (lt_of_le_of_lt this hc) (hpsd _)


/-! ### from the formula of the code to the Newton condition

`free : Fin n → Bool` selects the free variables; `Z` is the `n × |F|` selection matrix. With
`Ŵ = ZᵀW` and `r̂ = Zᵀ(g + B z_c)` (the reduced gradient `r` of the source restricted to the free
variables), C09 `smw_direction` says the direction `d̂` the code computes through the small system
solves `(θI − Ŵ M Ŵᵀ) d̂ = −r̂`. Extended by zero, `u = Z d̂`, it satisfies exactly the hypotheses
`hact`, `hnewton` of `direction_descent`. -/
section selection
open Matrix
variable {k : Nat}

/-- the selection matrix of the free variables -/
def selMat (free : Fin n → Bool) : Matrix (Fin n) {r : Fin n // free r = true} K :=
  Matrix.of fun r j => if r = j.val then 1 else 0

theorem selMat_apply (free : Fin n → Bool) (r : Fin n) (j : {r : Fin n // free r = true}) :
    (selMat free : Matrix _ _ K) r j = if r = j.val then 1 else 0 := rfl

theorem selMat_mulVec (free : Fin n → Bool) (d : {r : Fin n // free r = true} → K) (r : Fin n) :
    (selMat free *ᵥ d) r = if h : free r = true then d ⟨r, h⟩ else 0 := by
  simp only [mulVec, dotProduct, selMat_apply]
  split
  · rename_i h
    rw [Finset.sum_eq_single ⟨r, h⟩]
    · simp
    · intro j _ hj
      have : r ≠ j.val := fun e => hj (Subtype.ext e.symm)
      simp [this]
    · simp
  · rename_i h
    apply Finset.sum_eq_zero
    intro j _
    have : r ≠ j.val := fun e => h (e ▸ j.2)
    simp [this]

theorem selMat_transpose_mulVec (free : Fin n → Bool) (a : Fin n → K) (j : {r : Fin n // free r = true}) :
    ((selMat free)ᵀ *ᵥ a) j = a j.val := by
  simp only [mulVec, dotProduct, transpose_apply, selMat_apply]
  rw [Finset.sum_eq_single j.val]
  · simp
  · intro r _ hr
    simp [hr]
  · simp

/-- **C09 (Newton condition from the reduced system)** if `d̂` solves the reduced system
`(Zᵀ B Z) d̂ = −Zᵀ(g + B z_c)`, its extension by zero `u = Z d̂` vanishes on the active variables
and makes the model gradient vanish on the free ones. -/
theorem newton_of_reduced (G : Fin n → K) (B : Matrix (Fin n) (Fin n) K) (zc : Fin n → K)
    (free : Fin n → Bool) (dh : {r : Fin n // free r = true} → K)
    (hred : ((selMat free)ᵀ * B * selMat free) *ᵥ dh = -((selMat free)ᵀ *ᵥ (G + B *ᵥ zc))) :
    (∀ r, free r = false → (selMat free *ᵥ dh) r = 0) ∧
    (∀ r, free r = true → (G + B *ᵥ (zc + selMat free *ᵥ dh)) r = 0) := by
  constructor
  · intro r hr
    rw [selMat_mulVec]
    rw [dif_neg (by rw [hr]; simp)]
  · intro r hr
    have h1 := congrFun hred ⟨r, hr⟩
    rw [← mulVec_mulVec, ← mulVec_mulVec, selMat_transpose_mulVec] at h1
    simp only [Pi.neg_apply, selMat_transpose_mulVec] at h1
    simp only [Pi.add_apply] at h1 ⊢
    rw [mulVec_add]
    simp only [Pi.add_apply]
    linarith

theorem selMat_orth (free : Fin n → Bool) :
    ((selMat (K := K) free)ᵀ * selMat (K := K) free : Matrix {r : Fin n // free r = true} _ K) = 1 := by
  ext i j
  simp only [mul_apply, transpose_apply, selMat_apply, one_apply]
  rw [Finset.sum_eq_single i.val]
  · by_cases h : i = j
    · subst h; simp
    · have : i.val ≠ j.val := fun e => h (Subtype.ext e)
      simp [h, this]
  · intro r _ hr
    simp [hr]
  · simp

/-- the reduced matrix of `θI − W M Wᵀ` is `θI − Ŵ M Ŵᵀ` with `Ŵ = ZᵀW` -/
theorem reduced_bmat (free : Fin n → Bool) (θ : K) (W : Matrix (Fin n) (Fin k) K) (M : Matrix (Fin k) (Fin k) K) :
    (selMat (K := K) free)ᵀ * bmat θ W M * selMat (K := K) free =
      θ • (1 : Matrix {r : Fin n // free r = true} _ K) -
        ((selMat (K := K) free)ᵀ * W) * M * ((selMat (K := K) free)ᵀ * W)ᵀ := by
  unfold bmat
  rw [Matrix.mul_sub, Matrix.sub_mul, Matrix.mul_smul, Matrix.smul_mul, Matrix.mul_one, selMat_orth]
  congr 1
  rw [transpose_mul, transpose_transpose]
  simp only [Matrix.mul_assoc]

/-- **C09 (the direction the code computes is a descent direction)** — `v` solves the small
`2m × 2m` system of the source, `d̂ = −θ⁻¹(r̂ + θ⁻¹ Ŵ v)`; after the Cauchy step with strict model
decrease and truncation by `0 ≤ α ≤ 1`, the search direction `d = z_c + α Z d̂` satisfies `gᵀd < 0`. -/
theorem code_direction_descent (G : Fin n → K) (θ : K) (hθ : θ ≠ 0) (W : Matrix (Fin n) (Fin k) K)
    (M Minv : Matrix (Fin k) (Fin k) K) (hM : M * Minv = 1) (hsym : Mᵀ = M)
    (hpsd : ∀ a : Fin n → K, 0 ≤ a ⬝ᵥ (bmat θ W M *ᵥ a))
    (zc : Fin n → K) (free : Fin n → Bool) (v : Fin k → K)
    (hK : (Minv - (1 / θ) • (((selMat (K := K) free)ᵀ * W)ᵀ * ((selMat (K := K) free)ᵀ * W))) *ᵥ v =
      ((selMat (K := K) free)ᵀ * W)ᵀ *ᵥ ((selMat (K := K) free)ᵀ *ᵥ (G + bmat θ W M *ᵥ zc)))
    (hc : qmodel G (bmat θ W M) zc < 0) (α : K) (h0 : 0 ≤ α) (h1 : α ≤ 1) :
    G ⬝ᵥ (zc + α • (selMat (K := K) free *ᵥ
      (-(1 / θ) • ((selMat (K := K) free)ᵀ *ᵥ (G + bmat θ W M *ᵥ zc) +
        (1 / θ) • (((selMat (K := K) free)ᵀ * W) *ᵥ v))))) < 0 := by
  have hsmw := smw_direction ((selMat (K := K) free)ᵀ * W) M Minv hM θ hθ
    ((selMat (K := K) free)ᵀ *ᵥ (G + bmat θ W M *ᵥ zc)) v hK
  rw [← reduced_bmat] at hsmw
  obtain ⟨hact, hnewton⟩ := newton_of_reduced G (bmat θ W M) zc free _ hsmw
  exact direction_descent G _ (bmat_symm θ W M hsym) hpsd zc _ free hact hnewton hc α h0 h1

end selection

/-! ### the masked form the code actually computes

The source does not build a reduced system: it zeroes the rows of `W` and the entries of `r` that
belong to active variables (`Z` is the mask) and works in full dimension. -/
section masked
open Matrix
variable {k : Nat}

/-- `W` with the rows of the active variables zeroed -/
def maskRows (mask : Fin n → Bool) (W : Matrix (Fin n) (Fin k) K) : Matrix (Fin n) (Fin k) K :=
  Matrix.of fun r j => if mask r then W r j else 0

/-- a vector with the entries of the active variables zeroed -/
def maskVec (mask : Fin n → Bool) (a : Fin n → K) : Fin n → K := fun r => if mask r then a r else 0

theorem maskRows_mulVec (mask : Fin n → Bool) (W : Matrix (Fin n) (Fin k) K) (v : Fin k → K) (r : Fin n) :
    (maskRows mask W *ᵥ v) r = if mask r then (W *ᵥ v) r else 0 := by
  simp only [mulVec, dotProduct, maskRows, of_apply]
  split
  · rfl
  · simp

theorem maskRows_transpose_mulVec (mask : Fin n → Bool) (W : Matrix (Fin n) (Fin k) K) (u : Fin n → K)
    (hu : ∀ r, mask r = false → u r = 0) : (maskRows mask W)ᵀ *ᵥ u = Wᵀ *ᵥ u := by
  funext j
  simp only [mulVec, dotProduct, transpose_apply, maskRows, of_apply]
  apply Finset.sum_congr rfl
  intro r _
  cases hm : mask r with
  | true => simp
  | false => rw [hu r hm]; simp

/-- **C09 (masked Sherman–Morrison–Woodbury)** the direction the code computes in full dimension,
`u = −θ⁻¹(r̂ + θ⁻¹ Ŵ v)` with `(M⁻¹ − θ⁻¹ ŴᵀŴ) v = Ŵᵀ r̂`, `Ŵ`, `r̂` the masked `W`, `r`: it vanishes on the
active variables and satisfies `(B u)_i = −r_i` on the free ones, `B = θI − W M Wᵀ`. -/
theorem masked_smw (θ : K) (hθ : θ ≠ 0) (W : Matrix (Fin n) (Fin k) K) (M Minv : Matrix (Fin k) (Fin k) K)
    (hM : M * Minv = 1) (mask : Fin n → Bool) (rr : Fin n → K) (v : Fin k → K)
    (hK : (Minv - (1 / θ) • ((maskRows mask W)ᵀ * maskRows mask W)) *ᵥ v = (maskRows mask W)ᵀ *ᵥ maskVec mask rr) :
    let u := -(1 / θ) • (maskVec mask rr + (1 / θ) • (maskRows mask W *ᵥ v))
    (∀ r, mask r = false → u r = 0) ∧ (∀ r, mask r = true → (bmat θ W M *ᵥ u) r = -(rr r)) := by
  intro u
  have hzero : ∀ r, mask r = false → u r = 0 := by
    intro r hr
    simp only [u, Pi.smul_apply, Pi.add_apply, smul_eq_mul, maskVec, maskRows_mulVec, hr]
    simp
  refine ⟨hzero, ?_⟩
  intro r hr
  have hsmw := smw_direction (maskRows mask W) M Minv hM θ hθ (maskVec mask rr) v hK
  have h1 := congrFun hsmw r
  have e : ((θ • (1 : Matrix (Fin n) (Fin n) K) - maskRows mask W * M * (maskRows mask W)ᵀ) *ᵥ u) r =
      (bmat θ W M *ᵥ u) r := by
    rw [bmat_row]
    rw [sub_mulVec, smul_mulVec, one_mulVec, ← mulVec_mulVec, ← mulVec_mulVec,
      maskRows_transpose_mulVec mask W u hzero]
    simp only [Pi.sub_apply, Pi.smul_apply, smul_eq_mul, maskRows_mulVec, hr, if_true]
    rfl
  rw [← e]
  show ((θ • (1 : Matrix (Fin n) (Fin n) K) - maskRows mask W * M * (maskRows mask W)ᵀ) *ᵥ u) r = -(rr r)
  have : (-(maskVec mask rr)) r = -(rr r) := by simp [maskVec, hr]
  rw [← this]
  exact h1

end masked

end Lbfgsb.C09
