/-
  C17 — a gradient scaler is equivalent to minimising the explicitly scaled objective.

  Level U (+ `a * 1 = a` where stated). What is a theorem here:
  * `scaler_called_once`: on a fresh run that enters the loop the scaler is invoked exactly
    once (never when none is configured);
  * `scaler_sees_unscaled`: it is invoked with the clipped start point and the *unscaled*
    gradient there (the bounds are part of the configuration);
  * `scaled_values`: every value the driver holds afterwards — result and callback states —
    is the user's objective / gradient times the factor the scaler returned (C05 at scale `s`):
    the run *is* a run on `s·f`, `s·∇f`;
  * `target_on_unscaled`: a target message means `fun / s ≤ ftarget`.
  * `scaler_equivalence`: the run with a scaler returning `s` and the run WITHOUT scaler on the
    explicitly scaled objective `s·f`, `s·∇f` return the same result — same error, or equal `x`,
    `fun`, `jac`, counters, iteration count, message, success flag and correction pairs — for every
    objective, kernel, stepper, box, start and budget (callable gradient, no target, no
    redefinition, fresh run; laws used: `a·1 = a` and `¬ a < a`, both exact in IEEE arithmetic).
    Proved by a simulation over the whole driver (Proofs/Scale.lean): the two runs go through
    states that are equal except inside the function wrapper, where run A holds the unscaled
    values and the factor `s`, run B the scaled values and the factor `1`.
  The same equality is checked bit for bit on pairs of real runs by the search.
-/
import LbfgsbVerif.Proofs.C17
import LbfgsbVerif.Props.C04
import LbfgsbVerif.Props.C05
import LbfgsbVerif.Proofs.Scale
import LbfgsbVerif.Model.Utils
import LbfgsbVerif.Props.C01
import LbfgsbVerif.Props.C16
import Mathlib.Tactic.Positivity

namespace Lbfgsb.C17
open Lbfgsb
variable {α ε δ : Type}
variable [LinearOrder α] [Add α] [Sub α] [Mul α] [Div α] [Neg α] [OfNat α 0] [OfNat α 1]
  [FloatLike α]

/-- facts about the way the scaler is used, on a fresh run that enters the loop -/
theorem scaler_use (u : User α ε) (o : Oracles α δ) (c : Cfg α) (hck : c.checkpoint = none)
    (hit : C05.Iterated u c) (r : Result α) (s : St α) (h : minimize u o c = .ok (r, s)) :
    ∃ g0, gradSpec u.toSFUser c.lb c.ub c.mode (clip c.x0 c.lb c.ub) = .ok g0 ∧
      (c.hasScaler = true →
        u.scaler (clip c.x0 c.lb c.ub) (vscale g0 1) = .ok s.sf.scale ∧
        countK .scaler s.sf.log = 1) ∧
      (c.hasScaler = false → countK .scaler s.sf.log = 0) := by
  obtain ⟨i0, hi0, ht0⟩ := hit
  unfold minimize at h
  simp only [bind, Except.bind] at h
  split at h
  · simp at h
  · rename_i i hi
    rw [hi0] at hi
    injection hi with hi
    subst hi
    have is := initEval_sum u c i0 hi0
    have i5 := initEval_c05 u c i0 hi0
    simp only [ht0, Bool.false_eq_true, if_false] at h
    split at h
    · simp at h
    · rename_i s0 hs0
      have ps := prepare_sum u c i0 s0 is.coh hs0
      obtain ⟨g0, hg0, hS, hN⟩ := prepare_scaler u c hck i0 s0 is.coh hs0
      split at h
      · simp at h
      · rename_i s1 hs1
        simp only [pure, Except.pure] at h
        injection h with h; injection h with h1 h2
        have ls := mainLoop_sum u o c (c.maxiter - s0.nit) s0 s1 ps.inv (by omega)
          (fun _ => Nat.le_max_right _ _) hs1
        have hcl : (classify c s1).sf = s1.sf := by
          unfold classify; repeat' split
          all_goals rfl
        subst h2
        rw [hcl]
        -- nothing before the first gradient and nothing in the loop is a scaler call
        have hc0 : countK .scaler i0.sf.log = 0 := initEval_no_scaler u c i0 hi0
        have hloop : countK .scaler s1.sf.log = countK .scaler s0.sf.log :=
          countK_ext_of .scaler (fun _ hc' => hc'.notScaler) ls.log
        rw [i5.lb_eq, i5.ub_eq, is.mode, i5.x_eq] at hg0
        refine ⟨g0, hg0, fun hs => ?_, fun hs => ?_⟩
        · obtain ⟨h1', h2'⟩ := hS hs
          rw [i5.x_eq, is.scale1] at h1'
          exact ⟨by rw [ls.env.scale]; exact h1', by rw [hloop, h2', hc0]⟩
        · rw [hloop, (hN hs).2, hc0]

/-- **C17 (1)** the scaler is invoked exactly once (when there is one, never otherwise). -/
theorem scaler_called_once (u : User α ε) (o : Oracles α δ) (c : Cfg α) (hck : c.checkpoint = none)
    (hit : C05.Iterated u c) (r : Result α) (s : St α) (h : minimize u o c = .ok (r, s)) :
    countK .scaler s.sf.log = if c.hasScaler then 1 else 0 := by
  obtain ⟨g0, -, hS, hN⟩ := scaler_use u o c hck hit r s h
  cases hs : c.hasScaler with
  | true => simpa using (hS hs).2
  | false => simpa using hN hs

/-- **C17 (2)** the scaler sees the clipped start and its unscaled gradient, and the factor it
returns is the one the run uses (`a * 1 = a`: the gradient handed over is `g0` itself). -/
theorem scaler_sees_unscaled (u : User α ε) (o : Oracles α δ) (c : Cfg α)
    (hmul1 : ∀ a : α, a * 1 = a) (hck : c.checkpoint = none) (hS : c.hasScaler = true)
    (hit : C05.Iterated u c) (r : Result α) (s : St α) (h : minimize u o c = .ok (r, s)) :
    ∃ g0, gradSpec u.toSFUser c.lb c.ub c.mode (clip c.x0 c.lb c.ub) = .ok g0 ∧
      u.scaler (clip c.x0 c.lb c.ub) g0 = .ok s.sf.scale := by
  obtain ⟨g0, hg0, hS', -⟩ := scaler_use u o c hck hit r s h
  refine ⟨g0, hg0, ?_⟩
  have := (hS' hS).1
  rwa [vscale_one hmul1] at this

/-- **C17 (3)** the run with a scaler returning `s` is a run on `s·f`, `s·∇f`: the result and
every callback state carry `F(x)·s` and `∇F(x)·s`. -/
theorem scaled_values (u : User α ε) (o : Oracles α δ) (c : Cfg α) (hU : c.hasUpdate = false)
    (hmul1 : ∀ a : α, a * 1 = a) (hck : c.checkpoint = none) (hit : C05.Iterated u c)
    (r : Result α) (s : St α) (h : minimize u o c = .ok (r, s)) :
    CohAt u c s.sf.scale r.x r.f r.jac ∧ ∀ cb ∈ s.cbStates, CohAt u c s.sf.scale cb.x cb.f cb.jac := by
  have hck' : CkOk u c := by intro ck hh; rw [hck] at hh; cases hh
  exact ⟨C05.result_coherent u o c hU hmul1 hck' hit r s h,
    C05.callback_coherent u o c hU hmul1 hck' hit r s h⟩

/-- **C17 (4)** the target stop is tested on the unscaled value. -/
theorem target_on_unscaled (u : User α ε) (o : Oracles α δ) (c : Cfg α) (r : Result α) (s : St α)
    (h : minimize u o c = .ok (r, s)) (hm : r.msg = .target) :
    ∃ t, s.ftarget = some t ∧ ¬ t < r.f / s.sf.scale :=
  (C04.report_truthful u o c r s h).2.1 hm

/-- **C17 (5) — the equivalence.** -/
theorem scaler_equivalence (u : User α ε) (o : Oracles α δ) (c : Cfg α) (s : α)
    (hS : c.hasScaler = true) (hck : c.checkpoint = none) (hft : c.ftarget = none)
    (hm : c.mode = .callable) (hU : c.hasUpdate = false) (hsc : ∀ x g, u.scaler x g = .ok s)
    (hmul1 : ∀ a : α, a * 1 = a) :
    RelE (fun p q => p.1 = q.1) (minimize u o c)
      (minimize (scaledUser u s) o { c with hasScaler := false }) :=
  minimize_scaled (fun a => lt_irrefl a) u o c _ ⟨rfl, hS, hck, hft, hm, hU, hsc, hmul1⟩

/-! ### the packaged scaler (`get_gradient_projection_unit_scaling`, Model/Utils.lean), ordered field -/
section packaged
variable {K : Type} [Field K] [LinearOrder K] [IsStrictOrderedRing K]

theorem foldl_fmax_ge (v : Vec K) (acc : K) : acc ≤ v.foldl (fun a b => fmax a (fabs b)) acc := by
  induction v generalizing acc with
  | nil => exact le_refl _
  | cons b bs ih =>
    simp only [List.foldl_cons]
    refine le_trans ?_ (ih _)
    unfold fmax; split
    · exact le_of_lt ‹_›
    · exact le_refl _

theorem maxAbs_nonneg (v : Vec K) : 0 ≤ maxAbs v := foldl_fmax_ge v 0

theorem fabs_sub_comm (a b : K) : fabs (a - b) = fabs (b - a) := by
  rw [C16.fabs_eq, C16.fabs_eq, abs_sub_comm]

theorem maxAbs_vsub_comm (a b : Vec K) : maxAbs (vsub a b) = maxAbs (vsub b a) := by
  unfold maxAbs
  generalize (0 : K) = acc
  induction a generalizing b acc with
  | nil => cases b <;> simp [vsub, vzip]
  | cons x xs ih =>
    cases b with
    | nil => simp [vsub, vzip]
    | cons y ys =>
      simp only [vsub, vzip, List.foldl_cons] at ih ⊢
      rw [fabs_sub_comm x y]
      exact ih ys _

/-- **C17 (6)** the packaged scaler returns a strictly positive factor — `1` at a stationary start,
the inverse of the projected-gradient norm otherwise: the scaled problem starts with a projected
gradient of unit size. -/
theorem unit_scaling_pos (x g lb ub : Vec K) :
    0 < unitScaling x g lb ub ∧
    unitScaling x g lb ub = (if projgr x g lb ub = 0 then 1 else 1 / projgr x g lb ub) := by
  have hcomm : maxAbs (vsub x (clip (vsub x g) lb ub)) = projgr x g lb ub := by
    unfold projgr; exact maxAbs_vsub_comm _ _
  have hnn := maxAbs_nonneg (vsub x (clip (vsub x g) lb ub))
  unfold unitScaling
  simp only [C01.feq_zero_iff, hcomm] at hnn ⊢
  refine ⟨?_, trivial⟩
  split
  · exact one_pos
  · rename_i hne
    have : 0 < projgr x g lb ub := lt_of_le_of_ne hnn (Ne.symm hne)
    positivity

end packaged

/-! ### Non-vacuity: the ℤ example of C05 (scaler returning 3) meets the hypotheses, and the two
runs return the same result -/
section nonvacuous
example : C05.cZ.hasScaler = true ∧ C05.cZ.checkpoint = none ∧ C05.cZ.ftarget = none ∧
    C05.cZ.mode = .callable ∧ C05.cZ.hasUpdate = false ∧ (∀ x g, C05.uZ.scaler x g = .ok 3) ∧
    (∀ a : ℤ, a * 1 = a) := ⟨rfl, rfl, rfl, rfl, rfl, fun _ _ => rfl, Int.mul_one⟩

example : ∃ r s r' s', minimize C05.uZ C05.oZ C05.cZ = .ok (r, s) ∧
    minimize (scaledUser C05.uZ 3) C05.oZ { C05.cZ with hasScaler := false } = .ok (r', s') ∧
    r.x = r'.x ∧ r.f = r'.f ∧ r.jac = r'.jac ∧ r.nfev = r'.nfev ∧ r.sk = r'.sk ∧ r.f = 3 := by
  refine ⟨_, _, _, _, rfl, rfl, ?_⟩
  decide
end nonvacuous

end Lbfgsb.C17
