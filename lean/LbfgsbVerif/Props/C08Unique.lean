/-
  C08 — "the first local minimiser" is well defined: the two clauses of `gcp_first_local_min` (the model value along the projected
  path decreases strictly up to `t*`, and does not decrease on a right neighbourhood of `t*`) determine `t*`. So the theorem does
  not merely say that the routine returns *a* point with these properties: there is exactly one such parameter, and the Cauchy
  point is the point of the path at that parameter.
-/
import LbfgsbVerif.Props.C08Min

namespace Lbfgsb.C08
open Lbfgsb Matrix
variable {K : Type} [Field K] [LinearOrder K] [IsStrictOrderedRing K]

/-- a parameter with the two properties, for any real function `φ` on `[0, ∞)` -/
def FirstLocalMin (φ : K → K) (t : K) : Prop :=
  0 ≤ t ∧ (∀ p q, 0 ≤ p → p < q → q ≤ t → φ q < φ p) ∧ ∃ δ, 0 < δ ∧ ∀ τ, t ≤ τ → τ ≤ t + δ → φ t ≤ φ τ

/-- **uniqueness** -/
theorem firstLocalMin_unique (φ : K → K) (t1 t2 : K) (h1 : FirstLocalMin φ t1) (h2 : FirstLocalMin φ t2) : t1 = t2 := by
  have key : ∀ a b : K, FirstLocalMin φ a → FirstLocalMin φ b → ¬ a < b := by
    intro a b ha hb hab
    obtain ⟨ha0, -, δ, hδ, hmin⟩ := ha
    obtain ⟨-, hdec, -⟩ := hb
    -- a point just right of `a`, still below `b`
    have hτ1 : a < min b (a + δ) := lt_min hab (by linarith)
    have hle := hmin (min b (a + δ)) (le_of_lt hτ1) (min_le_right _ _)
    have hlt := hdec a (min b (a + δ)) ha0 hτ1 (min_le_left _ _)
    exact absurd hle (not_le.2 hlt)
  rcases lt_trichotomy t1 t2 with h | h | h
  · exact absurd h (key t1 t2 h1 h2)
  · exact h
  · exact absurd h (key t2 t1 h2 h1)

/-- **C08 (the Cauchy point is THE first local minimiser)** any parameter with the two properties gives the point the model returns -/
theorem gcp_is_the_first_local_min (i : CauchyIn K) (n k : Nat) (Mm : Matrix (Fin k) (Fin k) K)
    (hk : kOf i = k) (hc : MinCtx i n k Mm (f2orgOf i)) (t : K) (ht : FirstLocalMin (phi i n k Mm) t) :
    (cauchy i).1 = clip (vsub i.x (smul t i.g)) i.lb i.ub := by
  obtain ⟨tF, h0, hdec, hmin, hp, -⟩ := gcp_first_local_min i n k Mm hk hc
  have := firstLocalMin_unique (phi i n k Mm) t tF ht ⟨h0, hdec, hmin⟩
  rw [this]; exact hp

end Lbfgsb.C08
