/-
  C03 — the objective never increases from one accepted iterate to the next.

  Level U. `*` (the scaling of values by the wrapper) and every other arithmetic operation is
  uninterpreted; what is used is the order, and that the user's objective is a *function*
  (asking twice at the same point gives the same value). DCSRCH is an arbitrary oracle: the
  theorems hold whatever step lengths and task codes it answers, for every evaluation cap.
-/
import LbfgsbVerif.Proofs.C03
import Mathlib.Data.Int.Order.Basic

namespace Lbfgsb.C03
open Lbfgsb
variable {α ε δ : Type}
variable [LinearOrder α] [Add α] [Sub α] [Mul α] [Div α] [Neg α] [OfNat α 0] [OfNat α 1]
  [FloatLike α]

/-- **C03 (1) — the line search is strictly downhill or fails.** Whatever the stepper answers
and whatever the cap on evaluations, `line_search` returns `None` or a step `stp` such that the
user's objective at the trial point `clip(x0 + stp·d)`, times the scaling factor, is strictly
below the value `f0` it started from. -/
theorem ls_strict_decrease (u : User α ε) (o : Oracles α δ) (c : Cfg α) (x0 : Vec α) (f0 : α)
    (g0 d : Vec α) (nit : Nat) (sf sf' : SF α) (maxIter : Nat) (olog olog' : List (OReq α))
    (stp : α) (hc : Coh u.toSFUser sf)
    (h : lineSearch u o c x0 f0 g0 d nit sf maxIter olog = .ok (sf', some stp, olog')) :
    ∃ v, u.F (trial x0 d c.lb c.ub stp) = .ok v ∧ v * sf.scale < f0 :=
  (lineSearch_sum u o c x0 f0 g0 d nit sf sf' maxIter olog olog' (some stp) hc h).downhill stp rfl

/-- **C03 (2) — a failed line search leaves the iterate where it was** (point, value and
gradient), whether the memory is reset or the run aborts. -/
theorem failed_ls_keeps_x (s s' : St α) (flow : Flow) (h : iterFail s = (s', flow)) :
    s'.x = s.x ∧ s'.f = s.f ∧ s'.g = s.g := by
  unfold iterFail at h
  split at h <;> (injection h with h1 _; subst h1; exact ⟨rfl, rfl, rfl⟩)

/-- **C03 (3) — monotone sequence of accepted values.** With a fixed objective (no update
function) the values at the start of the loop, in every state handed to the callback (in
order) and in the result form a non-increasing list — for every objective, box, start,
`maxls`, `maxfun`, `maxcor`, every kernel and stepper behaviour. -/
theorem accepted_monotone (u : User α ε) (o : Oracles α δ) (c : Cfg α) (hU : c.hasUpdate = false)
    (r : Result α) (s : St α) (h : minimize u o c = .ok (r, s)) :
    ∃ i, initEval u c = .ok i ∧
      ((targetReached (i.f0 / i.sf.scale) i.ftarget = true ∧ s.cbStates = [] ∧ r.f = i.f0) ∨
       (∃ s0, prepare u c i = .ok s0 ∧ NonInc (s0.f :: (s.cbStates.map (·.f) ++ [r.f])))) := by
  unfold minimize at h
  simp only [bind, Except.bind] at h
  split at h
  · simp at h
  · rename_i i hi
    refine ⟨i, hi, ?_⟩
    have is := initEval_sum u c i hi
    split at h
    · rename_i ht
      simp only [pure, Except.pure] at h
      injection h with h
      unfold earlyResult at h
      split at h
      · rename_i ck hck
        injection h with h1 h2; subst h1; subst h2
        exact Or.inl ⟨ht, rfl, (is.f0_ck ck hck).symm⟩
      · injection h with h1 h2; subst h1; subst h2
        exact Or.inl ⟨ht, rfl, rfl⟩
    · split at h
      · simp at h
      · rename_i s0 hs0
        have ps := prepare_sum u c i s0 is.coh hs0
        split at h
        · simp at h
        · rename_i s1 hs1
          simp only [pure, Except.pure] at h
          injection h with h; injection h with h1 h2
          have hcb0 : s0.cbStates = [] := by
            have := ps.inv  -- the loop starts without callback states
            exact prepare_cbs u c i s0 hs0
          have i0 : Inv3 s0.f s0 := by
            simp [Inv3, chain, hcb0, NonInc]
          have i1 := mainLoop_inv3 u o c hU s0.f _ s0 s1 i0 ps.inv hs1
          have hcl : (classify c s1).f = s1.f ∧ (classify c s1).cbStates = s1.cbStates := by
            unfold classify; repeat' split
            all_goals exact ⟨rfl, rfl⟩
          subst h2; subst h1
          refine Or.inr ⟨s0, hs0, ?_⟩
          simp only [St.result]
          rw [hcl.1, hcl.2]
          exact i1

/-- **C03 (4)** consequently the returned objective value is never worse than the one the
loop started from. -/
theorem result_le_start (u : User α ε) (o : Oracles α δ) (c : Cfg α) (hU : c.hasUpdate = false)
    (r : Result α) (s : St α) (i : Init α) (s0 : St α) (hi : initEval u c = .ok i)
    (h0 : prepare u c i = .ok s0) (ht : targetReached (i.f0 / i.sf.scale) i.ftarget = false)
    (h : minimize u o c = .ok (r, s)) : ¬ s0.f < r.f := by
  obtain ⟨i', hi', hcase⟩ := accepted_monotone u o c hU r s h
  rw [hi] at hi'
  injection hi' with hi'
  subst hi'
  rcases hcase with ⟨ht', -, -⟩ | ⟨s0', h0', hmono⟩
  · rw [ht] at ht'; cases ht'
  · rw [h0] at h0'
    injection h0' with h0'
    subst h0'
    -- first element of a non-increasing list dominates the last
    have key : ∀ (l : List α) (a b : α), NonInc (a :: (l ++ [b])) → ¬ a < b := by
      intro l
      induction l with
      | nil => intro a b hh; simpa [NonInc] using hh.1
      | cons x xs ih =>
        intro a b hh
        simp only [List.cons_append, NonInc] at hh
        have := ih x b hh.2
        exact fun hab => this (lt_of_le_of_lt (le_of_not_gt hh.1) hab)
    exact key _ _ _ hmono

/-! ### Non-vacuity -/
section nonvacuous
instance : FloatLike ℤ := ⟨id, fun _ => true⟩

def uZ : User ℤ String where
  F x := .ok (dot x x)
  Gr x := .ok (smul 2 x)
  fdPts _ _ := []
  fdComb _ _ _ := []
  callback _ := .ok false
  update i := .ok ⟨i.f0, i.f0Old, i.grad, i.G⟩
  scaler _ _ := .ok 1
  ftargetFn _ := .ok (-5)
  gtolFn _ := .ok 0

/-- stepper: first proposes an uphill step (3), then 1, then stops with a warning -/
def oZ : Oracles ℤ Nat where
  xbar x _ _ := x.map (· - 1)
  dcNew _ _ _ _ _ _ := 0
  dcIter n _ _ _ _ := if n = 0 then (1, 7, .fg) else if n = 1 then (2, 1, .fg) else (n + 1, 1, .warn)

def cZ : Cfg ℤ :=
  { x0 := [3, 2], lb := [-10, -10], ub := [10, 10], mode := .callable, maxcor := 3, maxiter := 2,
    maxfun := 20, maxls := 4, ftol := 0, gtol := .const 0, ftarget := none, maxStep := 100,
    ftolLS := 0, gtolLS := 1, xtolLS := 0, epsSY := 0, hasCallback := true, hasUpdate := false,
    hasScaler := false, checkpoint := none }

/-- the run evaluates an uphill trial (value 41 > 13) in each line search and still produces
the decreasing sequence 13, 5, 1. -/
example : ∃ r s, minimize uZ oZ cZ = .ok (r, s) ∧ s.cbStates.map (·.f) = [5, 1] ∧ r.f = 1 ∧
    r.nfev = 5 := by
  refine ⟨_, _, rfl, ?_⟩
  decide

end nonvacuous

end Lbfgsb.C03
