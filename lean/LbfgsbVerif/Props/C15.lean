/-
  C15 — the function wrapper never serves a stale value and counts every evaluation once.

  Property theorems only (helper lemmas live in Proofs/SF.lean). Level U: `α` is any linear
  order, arithmetic (`*`) is an arbitrary operation, the user's functions and the
  differencing oracle are arbitrary. In a linear order `np.array_equal` is equality, so "a
  fresh evaluation at the requested point" is literally `u.F x`.
-/
import LbfgsbVerif.Proofs.SF
import LbfgsbVerif.Proofs.Count
import Mathlib.Data.Int.Order.Basic

namespace Lbfgsb.C15
open Lbfgsb
variable {α ε : Type}

section spec
variable [Mul α] [LT α] [DecidableLT α] [OfNat α 0]

/-- STATELESS SPECIFICATION: the answer to a request is a fresh evaluation of the user's
functions at the requested point, times the current scaling factor. -/
def specOut (u : SFUser α ε) (lb ub : Vec α) (mode : GradMode) (c : α) :
    SFOp α → Except ε (SFOut α)
  | .funv x => do let f ← u.F x; pure (.val (f * c))
  | .gradv x => do let g ← gradSpec u lb ub mode x; pure (.grad (vscale g c))
  | .funAndGrad x => do
      let f ← u.F x
      let g ← gradSpec u lb ub mode x
      pure (.both (f * c) (vscale g c))
  | .setScale _ => pure .unit

def specScale (c : α) : SFOp α → α
  | .setScale c' => c'
  | _ => c

def specRun (u : SFUser α ε) (lb ub : Vec α) (mode : GradMode) :
    α → List (SFOp α) → Except ε (List (SFOut α))
  | _, [] => pure []
  | c, op :: ops => do
    let o ← specOut u lb ub mode c op
    let os ← specRun u lb ub mode (specScale c op) ops
    pure (o :: os)
end spec

variable [LinearOrder α] [Mul α] [OfNat α 0]

/-- one step refines the specification and keeps the cache coherent -/
theorem step_refines {u : SFUser α ε} {s s' : SF α} {op : SFOp α} {o : SFOut α}
    (hc : Coh u s) (h : s.step u op = .ok (s', o)) :
    Coh u s' ∧ specOut u s.lb s.ub s.mode s.scale op = .ok o ∧ s'.mode = s.mode ∧
      s'.lb = s.lb ∧ s'.ub = s.ub ∧ s'.scale = specScale s.scale op := by
  cases op with
  | setScale c =>
    simp [SF.step, pure, Except.pure] at h
    obtain ⟨rfl, rfl⟩ := h
    exact ⟨hc, rfl, rfl, rfl, rfl, rfl⟩
  | funv x =>
    simp only [SF.step, SF.funv] at h
    obtain ⟨hx, hm, hlb, hub, hsc, -, -, -, -⟩ := updateX_spec s x
    cases h1 : (s.updateX x).updFun u with
    | error e => simp [h1, bind, Except.bind] at h
    | ok s1 =>
      simp [h1, bind, Except.bind, pure, Except.pure] at h
      obtain ⟨rfl, rfl⟩ := h
      obtain ⟨hc1, -, hF, -, hm1, hlb1, hub1, hsc1, -⟩ := updFun_ok (updateX_coh hc x) h1
      rw [hx] at hF
      refine ⟨hc1, ?_, by rw [hm1, hm], by rw [hlb1, hlb], by rw [hub1, hub],
        by rw [hsc1, hsc]; rfl⟩
      simp [specOut, hF, bind, Except.bind, pure, Except.pure, hsc1, hsc]
  | gradv x =>
    simp only [SF.step, SF.gradv] at h
    obtain ⟨hx, hm, hlb, hub, hsc, -, -, -, -⟩ := updateX_spec s x
    cases h1 : (s.updateX x).updGrad u with
    | error e => simp [h1, bind, Except.bind] at h
    | ok s1 =>
      simp [h1, bind, Except.bind, pure, Except.pure] at h
      obtain ⟨rfl, rfl⟩ := h
      obtain ⟨hc1, -, hG, -, hm1, hlb1, hub1, hsc1, -⟩ := updGrad_ok (updateX_coh hc x) h1
      rw [hx, hm, hlb, hub] at hG
      refine ⟨hc1, ?_, by rw [hm1, hm], by rw [hlb1, hlb], by rw [hub1, hub],
        by rw [hsc1, hsc]; rfl⟩
      simp [specOut, hG, bind, Except.bind, pure, Except.pure, hsc1, hsc]
  | funAndGrad x =>
    simp only [SF.step, SF.funAndGrad] at h
    obtain ⟨hx, hm, hlb, hub, hsc, -, -, -, -⟩ := updateX_spec s x
    cases h1 : (s.updateX x).updFun u with
    | error e => simp [h1, bind, Except.bind] at h
    | ok s1 =>
      obtain ⟨hc1, hf1, hF, hx1, hm1, hlb1, hub1, hsc1, -⟩ := updFun_ok (updateX_coh hc x) h1
      cases h2 : s1.updGrad u with
      | error e => simp [h1, h2, bind, Except.bind] at h
      | ok s2 =>
        simp [h1, h2, bind, Except.bind, pure, Except.pure] at h
        obtain ⟨rfl, rfl⟩ := h
        obtain ⟨hc2, -, hG, -, hm2, hlb2, hub2, hsc2, -, hkeep⟩ := updGrad_ok hc1 h2
        obtain ⟨hf2, -⟩ := hkeep hf1
        rw [hx] at hF
        rw [hx1, hx, hm1, hm, hlb1, hlb, hub1, hub] at hG
        refine ⟨hc2, ?_, by rw [hm2, hm1, hm], by rw [hlb2, hlb1, hlb], by rw [hub2, hub1, hub],
          by rw [hsc2, hsc1, hsc]; rfl⟩
        simp [specOut, hF, hG, bind, Except.bind, pure, Except.pure, hsc2, hsc1, hsc, hf2]

/-- **C15 (1) — refinement to the stateless specification.**
For every user objective/gradient/differencing oracle, every starting state with a coherent
cache (in particular a fresh wrapper) and every sequence of requests and scale changes:
whenever the wrapper answers, its answers are exactly the fresh evaluations of the
specification. No stale value is ever served. -/
theorem sf_refines (u : SFUser α ε) (ops : List (SFOp α)) (s s' : SF α) (outs : List (SFOut α))
    (hc : Coh u s) (h : SF.steps u s ops = .ok (s', outs)) :
    specRun u s.lb s.ub s.mode s.scale ops = .ok outs ∧ Coh u s' := by
  induction ops generalizing s outs with
  | nil =>
    simp [SF.steps, pure, Except.pure] at h
    obtain ⟨rfl, rfl⟩ := h
    exact ⟨rfl, hc⟩
  | cons op ops ih =>
    unfold SF.steps at h
    cases h1 : s.step u op with
    | error e => simp [h1, bind, Except.bind] at h
    | ok r =>
      obtain ⟨s1, o⟩ := r
      cases h2 : SF.steps u s1 ops with
      | error e => simp [h1, h2, bind, Except.bind] at h
      | ok r2 =>
        obtain ⟨s2, os⟩ := r2
        simp [h1, h2, bind, Except.bind, pure, Except.pure] at h
        obtain ⟨rfl, rfl⟩ := h
        obtain ⟨hc1, ho, hm, hlb, hub, hsc⟩ := step_refines hc h1
        obtain ⟨hr, hc2⟩ := ih s1 os hc1 h2
        rw [hm, hlb, hub, hsc] at hr
        exact ⟨by simp [specRun, ho, hr, bind, Except.bind, pure, Except.pure], hc2⟩

/-- a fresh wrapper has a coherent (empty) cache: the hypothesis of `sf_refines` is met -/
theorem new_coh [OfNat α 1] (u : SFUser α ε) (mode : GradMode) (x0 lb ub : Vec α) :
    Coh u (SF.new mode x0 lb ub) := by
  simp [Coh, SF.new]

/-- **C15 (2) — no re-evaluation.** Once the value at `x` has been served, asking again at
`x` — after any number of scale changes — leaves the whole state (counters, log) unchanged:
the objective is not called again. -/
theorem no_reeval (u : SFUser α ε) (s s1 : SF α) (x : Vec α) (v : α) (cs : List α)
    (h : s.funv u x = .ok (s1, v)) :
    let s2 := cs.foldl (fun t c => { t with scale := c }) s1
    s2.funv u x = .ok (s2, s2.f * s2.scale) ∧ s2.nfev = s1.nfev ∧ s2.log = s1.log := by
  have key : s1.fUpd = true ∧ s1.x = x := by
    simp only [SF.funv] at h
    cases h1 : (s.updateX x).updFun u with
    | error e => simp [h1, bind, Except.bind] at h
    | ok t =>
      simp [h1, bind, Except.bind, pure, Except.pure] at h
      obtain ⟨rfl, -⟩ := h
      -- coherence is not needed for the flags: use the trivial invariant
      unfold SF.updFun at h1
      by_cases hf : (s.updateX x).fUpd = true
      · simp [hf, pure, Except.pure] at h1
        subst h1
        exact ⟨hf, (updateX_spec s x).1⟩
      · have hf' : (s.updateX x).fUpd = false := by simpa using hf
        simp only [hf', Bool.false_eq_true, if_false] at h1
        cases h2 : (s.updateX x).callF u (s.updateX x).x with
        | error e => simp [h2, bind, Except.bind] at h1
        | ok r =>
          obtain ⟨t1, w⟩ := r
          simp [h2, bind, Except.bind, pure, Except.pure] at h1
          obtain ⟨-, ht1⟩ := callF_ok h2
          subst h1
          subst ht1
          exact ⟨rfl, (updateX_spec s x).1⟩
  have inv : ∀ (cs : List α) (t : SF α), t.fUpd = true ∧ t.x = x →
      let t2 := cs.foldl (fun t c => { t with scale := c }) t
      (t2.fUpd = true ∧ t2.x = x) ∧ t2.nfev = t.nfev ∧ t2.log = t.log := by
    intro cs
    induction cs with
    | nil => intro t ht; exact ⟨ht, rfl, rfl⟩
    | cons c cs ih =>
      intro t ht
      have := ih { t with scale := c } ht
      simpa using this
  obtain ⟨⟨hf2, hx2⟩, hn, hl⟩ := inv cs s1 key
  refine ⟨?_, hn, hl⟩
  simp only [SF.funv]
  have hup := (updateX_spec (cs.foldl (fun t c => { t with scale := c }) s1) x).2.2.2.2.2.2.2.2 hx2.symm
  rw [hup]
  simp [SF.updFun, hf2, bind, Except.bind, pure, Except.pure]

/-- counter invariant of a wrapper that started from zero -/
abbrev Counted (s : SF α) : Prop := CountedFrom 0 0 s

theorem step_counted {u : SFUser α ε} {s s' : SF α} {op : SFOp α} {o : SFOut α}
    (hc : Counted s) (h : s.step u op = .ok (s', o)) : Counted s' := by
  have hux : ∀ x, Counted (s.updateX x) := by
    intro x
    exact updateX_counted hc x
  cases op with
  | setScale c =>
    simp [SF.step, pure, Except.pure] at h
    obtain ⟨rfl, -⟩ := h
    exact hc
  | funv x =>
    simp only [SF.step, SF.funv] at h
    cases h1 : (s.updateX x).updFun u with
    | error e => simp [h1, bind, Except.bind] at h
    | ok s1 =>
      simp [h1, bind, Except.bind, pure, Except.pure] at h
      obtain ⟨rfl, -⟩ := h
      exact (updFun_counted (hux x) h1).1
  | gradv x =>
    simp only [SF.step, SF.gradv] at h
    cases h1 : (s.updateX x).updGrad u with
    | error e => simp [h1, bind, Except.bind] at h
    | ok s1 =>
      simp [h1, bind, Except.bind, pure, Except.pure] at h
      obtain ⟨rfl, -⟩ := h
      exact (updGrad_counted (hux x) h1).1
  | funAndGrad x =>
    simp only [SF.step, SF.funAndGrad] at h
    cases h1 : (s.updateX x).updFun u with
    | error e => simp [h1, bind, Except.bind] at h
    | ok s1 =>
      cases h2 : s1.updGrad u with
      | error e => simp [h1, h2, bind, Except.bind] at h
      | ok s2 =>
        simp [h1, h2, bind, Except.bind, pure, Except.pure] at h
        obtain ⟨rfl, -⟩ := h
        exact (updGrad_counted (updFun_counted (hux x) h1).1 h2).1

/-- **C15 (3) — counters equal calls.** Starting from a fresh wrapper (or any state whose
counters agree with its log), after any sequence of operations `nfev` is the number of calls
made to the user's objective (stencil points of finite differences included) and, with a
callable gradient, `ngev` the number of calls made to the user's gradient. -/
theorem counters_eq_calls (u : SFUser α ε) (ops : List (SFOp α)) (s s' : SF α)
    (outs : List (SFOut α)) (hc : Counted s) (h : SF.steps u s ops = .ok (s', outs)) :
    s'.nfev = nF s'.log ∧ (s'.mode = .callable → s'.ngev = nG s'.log) := by
  suffices hh : Counted s' by simpa [CountedFrom] using hh
  induction ops generalizing s outs with
  | nil =>
    simp [SF.steps, pure, Except.pure] at h
    obtain ⟨rfl, -⟩ := h
    exact hc
  | cons op ops ih =>
    unfold SF.steps at h
    cases h1 : s.step u op with
    | error e => simp [h1, bind, Except.bind] at h
    | ok r =>
      obtain ⟨s1, o⟩ := r
      cases h2 : SF.steps u s1 ops with
      | error e => simp [h1, h2, bind, Except.bind] at h
      | ok r2 =>
        obtain ⟨s2, os⟩ := r2
        simp [h1, h2, bind, Except.bind, pure, Except.pure] at h
        obtain ⟨rfl, -⟩ := h
        exact ih s1 os (step_counted hc h1) h2

omit [LinearOrder α] [Mul α] in
theorem new_counted [OfNat α 1] (mode : GradMode) (x0 lb ub : Vec α) :
    Counted (SF.new mode x0 lb ub : SF α) := by
  simp [CountedFrom, SF.new, nF, nG]

omit [Mul α] in
/-- **C15 (4) — finite-difference gradients.** With a differencing mode, computing a gradient
at a point costs exactly one objective call at the point — unless its value is cached — plus
one per stencil point chosen by the differencing routine, all of them through the counting
wrapper and logged in that order, and `ngev` grows by one. -/
theorem fd_counts (u : SFUser α ε) (s s' : SF α) (hc : Coh u s) (hm : s.mode = .fd)
    (hg : s.gUpd = false) (h : s.updGrad u = .ok s') :
    ∃ f, u.F s.x = .ok f ∧ s'.ngev = s.ngev + 1 ∧
      s'.nfev = s.nfev + (if s.fUpd then 0 else 1) + (u.fdPts s.x f).length ∧
      s'.log = s.log ++ (if s.fUpd then [] else [Call.mk .F s.x]) ++ fcalls (u.fdPts s.x f) := by
  unfold SF.updGrad at h
  simp only [hg, Bool.false_eq_true, if_false, hm] at h
  cases h1 : s.updFun u with
  | error e => simp [h1, bind, Except.bind] at h
  | ok s1 =>
    obtain ⟨-, -, hF, hx1, -, -, -, -, hng, -, -, hsame, hnew⟩ := updFun_ok hc h1
    cases h2 : SF.callFs u { s1 with ngev := s1.ngev + 1 } (u.fdPts s1.x s1.f) with
    | error e => simp [h1, h2, bind, Except.bind] at h
    | ok r =>
      obtain ⟨s2, vs⟩ := r
      simp [h1, h2, bind, Except.bind, pure, Except.pure] at h
      obtain ⟨-, hs2⟩ := callFs_ok h2
      subst h; subst hs2
      refine ⟨s1.f, hF, by simp [hng], ?_, ?_⟩
      · by_cases hf : s.fUpd = true
        · have := hsame hf; subst this; simp [hf]
        · have hf' : s.fUpd = false := by simpa using hf
          obtain ⟨hn, -⟩ := hnew hf'
          simp [hf', hn, hx1]
      · by_cases hf : s.fUpd = true
        · have := hsame hf; subst this; simp [hf]
        · have hf' : s.fUpd = false := by simpa using hf
          obtain ⟨-, hl⟩ := hnew hf'
          simp [hf', hl, hx1]

/-! ### Non-vacuity: the hypotheses are met by a concrete, non-trivial history (over `ℤ`). -/
section nonvacuous

def uZ : SFUser ℤ String where
  F x := .ok (dot x x)
  Gr x := .ok (smul 2 x)
  fdPts x _ := [x.map (· + 1)]
  fdComb _ f vs := vs.map (· - f)

def histZ : List (SFOp ℤ) :=
  [.funv [1, 2], .gradv [3, 4], .setScale 5, .funv [1, 2], .funAndGrad [1, 2], .funv [1, 2]]

/-- the history runs to completion from a fresh wrapper, re-evaluates `F [1,2]` exactly once
after the cache moved to `[3,4]`, and the theorems' conclusions can be observed. -/
example : ∃ s' outs, SF.steps uZ (SF.new .callable [1, 2]) histZ = .ok (s', outs) ∧
    s'.nfev = 2 ∧ s'.ngev = 2 ∧ nF s'.log = 2 ∧ nG s'.log = 2 := by
  refine ⟨_, _, rfl, ?_⟩
  decide

example : ∃ s' outs, SF.steps uZ (SF.new .fd [1, 2]) histZ = .ok (s', outs) ∧
    s'.nfev = 5 ∧ s'.ngev = 2 ∧ nF s'.log = 5 := by
  refine ⟨_, _, rfl, ?_⟩
  decide

example : Coh uZ (SF.new .callable [1, 2]) ∧ Counted (SF.new .callable [1, 2] : SF ℤ) :=
  ⟨new_coh _ _ _ _ _, new_counted _ _ _ _⟩

end nonvacuous

end Lbfgsb.C15
