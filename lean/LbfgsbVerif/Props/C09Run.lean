/-
  C09 about the executable model itself — `subspaceMin` (Model/Subspace.lean), the function the
  correspondence compares with `subspace_minimization` (ordered field, exact arithmetic).

  Under `SubCtx` (sizes; feasible Cauchy point; non-empty memory; the product with the middle matrix
  and the small `2m × 2m` solve are exact; `c = Wᵀ(x_cp − x)` as C08 proves of the Cauchy step):
    * `subspace_newton_point`: `x̄ = x_cp + α·u` exactly (the final `clip` is the identity), `0 ≤ α ≤ 1`,
      `x̄` in the box, `u` vanishes on every variable that is on a bound at the Cauchy point and makes the
      gradient of the quadratic model vanish on the free ones: the box-truncated Newton point;
    * `subspace_model_no_increase`: the model value at `x̄` does not exceed the one at `x_cp`;
    * `subspace_direction_descent`: when the Cauchy step decreased the model strictly
      (C08 `gcp_model_neg`), `gᵀ(x̄ − x) < 0`.
-/
import LbfgsbVerif.Proofs.SubspaceBridge

namespace Lbfgsb.C09
open Lbfgsb Matrix
variable {K : Type} [Field K] [LinearOrder K] [IsStrictOrderedRing K]

/-- the box-truncated Newton point, from the specification of the model -/
theorem newton_point_of_spec (i : SubIn K) (n k : Nat) (Mm : Matrix (Fin k) (Fin k) K) (h : SubSpec i n k Mm) :
    ∃ (al : K) (u : Vec K), u.length = n ∧ 0 ≤ al ∧ al ≤ 1 ∧ subspaceMin i = vadd i.xc (smul al u) ∧
      InBoxF i.lb i.ub (subspaceMin i) ∧
      (∀ r, maskF n (freeMask i.xc i.lb i.ub) r = false → vec n u r = 0) ∧
      (∀ r, maskF n (freeMask i.xc i.lb i.ub) r = true →
        (vec n i.g + bmat i.theta (wmat n k i.W) Mm *ᵥ ((vec n i.xc - vec n i.x) + vec n u)) r = 0) := by
  obtain ⟨h1, h2, hl, al, ha0, ha1, he, hin⟩ := h
  exact ⟨al, subD i, hl, ha0, ha1, he, hin, h1, h2⟩

/-- **C09 (the model returns the box-truncated Newton point)** -/
theorem subspace_newton_point (i : SubIn K) (n k : Nat) (Mm Minvm : Matrix (Fin k) (Fin k) K)
    (h : SubCtx i n k Mm Minvm) :
    ∃ (al : K) (u : Vec K), u.length = n ∧ 0 ≤ al ∧ al ≤ 1 ∧ subspaceMin i = vadd i.xc (smul al u) ∧
      InBoxF i.lb i.ub (subspaceMin i) ∧
      (∀ r, maskF n (freeMask i.xc i.lb i.ub) r = false → vec n u r = 0) ∧
      (∀ r, maskF n (freeMask i.xc i.lb i.ub) r = true →
        (vec n i.g + bmat i.theta (wmat n k i.W) Mm *ᵥ ((vec n i.xc - vec n i.x) + vec n u)) r = 0) :=
  newton_point_of_spec i n k Mm (subspace_spec i n k Mm Minvm h)

/-- **C09 (… with an empty memory)** no hypothesis on any solve: `B = θI` and nothing is solved -/
theorem subspace_newton_point_nopairs (i : SubIn K) (n k : Nat) (h : SubCtx0 i n k) :
    ∃ (al : K) (u : Vec K), u.length = n ∧ 0 ≤ al ∧ al ≤ 1 ∧ subspaceMin i = vadd i.xc (smul al u) ∧
      InBoxF i.lb i.ub (subspaceMin i) ∧
      (∀ r, maskF n (freeMask i.xc i.lb i.ub) r = false → vec n u r = 0) ∧
      (∀ r, maskF n (freeMask i.xc i.lb i.ub) r = true →
        (vec n i.g + bmat i.theta (wmat n k i.W) (0 : Matrix (Fin k) (Fin k) K) *ᵥ
          ((vec n i.xc - vec n i.x) + vec n u)) r = 0) :=
  newton_point_of_spec i n k 0 (subspace_spec0 i n k h)

/-- the displacement from `x` to the returned point, as a vector -/
theorem displacement_of_spec (i : SubIn K) (n k : Nat) (Mm : Matrix (Fin k) (Fin k) K) (h : SubSpec i n k Mm)
    (hxc : i.xc.length = n) :
    ∃ (al : K) (u : Fin n → K), 0 ≤ al ∧ al ≤ 1 ∧
      vec n (subspaceMin i) - vec n i.x = (vec n i.xc - vec n i.x) + al • u ∧
      (∀ r, maskF n (freeMask i.xc i.lb i.ub) r = false → u r = 0) ∧
      (∀ r, maskF n (freeMask i.xc i.lb i.ub) r = true →
        (vec n i.g + bmat i.theta (wmat n k i.W) Mm *ᵥ ((vec n i.xc - vec n i.x) + u)) r = 0) := by
  obtain ⟨al, u, hul, ha0, ha1, he, -, h1, h2⟩ := newton_point_of_spec i n k Mm h
  refine ⟨al, vec n u, ha0, ha1, ?_, h1, h2⟩
  rw [he, vec_vadd n _ _ hxc (by rw [smul_length, hul]), vec_smul n _ _ hul]
  abel

/-- model value does not increase, from the specification -/
theorem no_increase_of_spec (i : SubIn K) (n k : Nat) (Mm : Matrix (Fin k) (Fin k) K) (h : SubSpec i n k Mm)
    (hxc : i.xc.length = n) (hsym : Mmᵀ = Mm)
    (hpsd : ∀ a : Fin n → K, 0 ≤ a ⬝ᵥ (bmat i.theta (wmat n k i.W) Mm *ᵥ a)) :
    qmodel (vec n i.g) (bmat i.theta (wmat n k i.W) Mm) (vec n (subspaceMin i) - vec n i.x) ≤
      qmodel (vec n i.g) (bmat i.theta (wmat n k i.W) Mm) (vec n i.xc - vec n i.x) := by
  obtain ⟨al, u, ha0, ha1, he, hact, hnewt⟩ := displacement_of_spec i n k Mm h hxc
  rw [he]
  exact subspace_no_increase _ _ (bmat_symm _ _ _ hsym) _ u
    (masked_newton_condition _ _ _ u _ hact hnewt) (hpsd u) al ha0 ha1

/-- descent, from the specification -/
theorem descent_of_spec (i : SubIn K) (n k : Nat) (Mm : Matrix (Fin k) (Fin k) K) (h : SubSpec i n k Mm)
    (hxc : i.xc.length = n) (hsym : Mmᵀ = Mm)
    (hpsd : ∀ a : Fin n → K, 0 ≤ a ⬝ᵥ (bmat i.theta (wmat n k i.W) Mm *ᵥ a))
    (hc : qmodel (vec n i.g) (bmat i.theta (wmat n k i.W) Mm) (vec n i.xc - vec n i.x) < 0) :
    vec n i.g ⬝ᵥ (vec n (subspaceMin i) - vec n i.x) < 0 := by
  obtain ⟨al, u, ha0, ha1, he, hact, hnewt⟩ := displacement_of_spec i n k Mm h hxc
  rw [he]
  exact direction_descent _ _ (bmat_symm _ _ _ hsym) hpsd _ u _ hact hnewt hc al ha0 ha1

/-- **C09 (model value)** the subspace step of the model never increases the quadratic model
(`B` symmetric positive semi-definite) -/
theorem subspace_model_no_increase (i : SubIn K) (n k : Nat) (Mm Minvm : Matrix (Fin k) (Fin k) K)
    (h : SubCtx i n k Mm Minvm) (hsym : Mmᵀ = Mm)
    (hpsd : ∀ a : Fin n → K, 0 ≤ a ⬝ᵥ (bmat i.theta (wmat n k i.W) Mm *ᵥ a)) :
    qmodel (vec n i.g) (bmat i.theta (wmat n k i.W) Mm) (vec n (subspaceMin i) - vec n i.x) ≤
      qmodel (vec n i.g) (bmat i.theta (wmat n k i.W) Mm) (vec n i.xc - vec n i.x) :=
  no_increase_of_spec i n k Mm (subspace_spec i n k Mm Minvm h) h.hxc hsym hpsd

/-- **C09 (descent)** after a Cauchy step with strict model decrease, the search direction
`x̄ − x` of the model is a descent direction -/
theorem subspace_direction_descent (i : SubIn K) (n k : Nat) (Mm Minvm : Matrix (Fin k) (Fin k) K)
    (h : SubCtx i n k Mm Minvm) (hsym : Mmᵀ = Mm)
    (hpsd : ∀ a : Fin n → K, 0 ≤ a ⬝ᵥ (bmat i.theta (wmat n k i.W) Mm *ᵥ a))
    (hc : qmodel (vec n i.g) (bmat i.theta (wmat n k i.W) Mm) (vec n i.xc - vec n i.x) < 0) :
    vec n i.g ⬝ᵥ (vec n (subspaceMin i) - vec n i.x) < 0 :=
  descent_of_spec i n k Mm (subspace_spec i n k Mm Minvm h) h.hxc hsym hpsd hc

/-- **C09 (descent, empty memory)** `θ > 0` is all that is needed of the model -/
theorem subspace_direction_descent_nopairs (i : SubIn K) (n k : Nat) (h : SubCtx0 i n k) (hθ : 0 < i.theta)
    (hc : qmodel (vec n i.g) (bmat i.theta (wmat n k i.W) (0 : Matrix (Fin k) (Fin k) K)) (vec n i.xc - vec n i.x) < 0) :
    vec n i.g ⬝ᵥ (vec n (subspaceMin i) - vec n i.x) < 0 := by
  refine descent_of_spec i n k 0 (subspace_spec0 i n k h) h.hxc (by simp) ?_ hc
  intro a
  rw [bmat_mulVec, zero_mulVec, mulVec_zero, sub_zero, dotProduct_smul, smul_eq_mul]
  exact mul_nonneg (le_of_lt hθ) (Finset.sum_nonneg fun j _ => mul_self_nonneg (a j))

end Lbfgsb.C09

/-! ### Non-vacuity (ℚ): two variables, one stored pair (`k = 2`), `W = I`, `M = diag(−1, ½)`, `θ = 1`,
so `B = I − M = diag(2, ½)`. The Cauchy point `(¼, 1)` has its second variable on the upper bound;
the reduced gradient on the free one is `−½`, the Newton step `u = (¼, 0)`, `α* = 1`, `x̄ = (½, 1)`. -/
namespace Lbfgsb.C09
open Lbfgsb Matrix
section nonvacuous

def exSub : SubIn ℚ :=
  { x := [0, 0], g := [-1, -2], lb := [-1, -1], ub := [1, 1], theta := 1, W := [[1, 0], [0, 1]],
    Minv := [[-1, 0], [0, 2]], useFactor := true, epsFsec := 0, xc := [1 / 4, 1], c := [1 / 4, 1] }

def exM : Matrix (Fin 2) (Fin 2) ℚ := Matrix.of fun a b => if a = b then (if a = 0 then -1 else 1 / 2) else 0
def exMinv : Matrix (Fin 2) (Fin 2) ℚ := Matrix.of fun a b => if a = b then (if a = 0 then -1 else 2) else 0

example : subspaceMin exSub = [1 / 2, 1] := by decide +kernel

theorem ex_mvc : exSub.toCauchyIn.mv exSub.c = [-1 / 4, 1 / 2] := by decide +kernel
theorem ex_subV : subV exSub = [1 / 4, 0] := by decide +kernel
theorem ex_subR : subR exSub = [-1 / 2, -3 / 2] := by decide +kernel
theorem ex_mask : subMask exSub = [true, false] := by decide +kernel

theorem ex_subctx : SubCtx exSub 2 2 exM exMinv where
  hx := rfl
  hg := rfl
  hxc := rfl
  hW := rfl
  hrow := by
    intro r hr
    match r, hr with
    | 0, _ => rfl
    | 1, _ => rfl
  hcl := rfl
  box := by simp [exSub, InBoxF]; norm_num
  hθ := by simp [exSub]
  uf := rfl
  hmvc := by
    rw [ex_mvc]
    refine ⟨rfl, ?_⟩
    funext r
    fin_cases r <;> simp [vec, exM, exSub, mulVec, dotProduct, Fin.sum_univ_two] <;> norm_num
  hM := by
    ext a b
    fin_cases a <;> fin_cases b <;> simp [exM, exMinv, Matrix.mul_apply, Fin.sum_univ_two]
  hc := by
    funext r
    fin_cases r <;> simp [vec, wmat, exSub, mulVec, dotProduct, Fin.sum_univ_two]
  hsolve := by
    rw [ex_subV, ex_subR, ex_mask]
    refine ⟨rfl, ?_⟩
    funext r
    fin_cases r <;>
      simp [vec, wmat, exSub, exMinv, mulVec, dotProduct, Fin.sum_univ_two, maskRows, maskVec, maskF,
        Matrix.mul_apply, Matrix.sub_apply, Matrix.smul_apply] <;> norm_num

/-- the theorems apply to this instance -/
example : ∃ (al : ℚ) (u : Vec ℚ), 0 ≤ al ∧ al ≤ 1 ∧ subspaceMin exSub = vadd exSub.xc (smul al u) :=
  let ⟨al, u, _, h0, h1, he, _⟩ := subspace_newton_point exSub 2 2 exM exMinv ex_subctx
  ⟨al, u, h0, h1, he⟩

end nonvacuous
end Lbfgsb.C09
