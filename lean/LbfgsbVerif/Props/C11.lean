/-
  C11 — line-search steps are feasible, within budget and strictly downhill.

  * level U (any linear order, uninterpreted arithmetic, DCSRCH an arbitrary oracle):
    `ls_points_in_box`, `ls_evals_le_cap`, `ls_result_downhill`;
  * level F (ordered field): `maxStep_feasible` — every step in `[0, max step]` keeps
    `x + α d` in the box, and the max step is at most the user's cap.
  That the step finally returned is one DCSRCH proposed within `[0, stpmax]` is SciPy's
  contract (monitored by the harness on every recorded call).
-/
import LbfgsbVerif.Proofs.C02
import LbfgsbVerif.Proofs.C11
import LbfgsbVerif.Props.C03
import LbfgsbVerif.Proofs.Dcsrch
import LbfgsbVerif.Proofs.LsRange
import LbfgsbVerif.Model.Kernels
import Mathlib.Algebra.Order.Field.Rat

namespace Lbfgsb.C11
open Lbfgsb

section U
variable {α ε δ : Type}
variable [LinearOrder α] [Add α] [Sub α] [Mul α] [Div α] [Neg α] [OfNat α 0] [OfNat α 1]
  [FloatLike α]

/-- **C11 (1)** with a callable gradient every point the line search hands to the user's
objective or gradient is a clipped trial point, hence inside the box. -/
theorem ls_points_in_box (u : User α ε) (o : Oracles α δ) (c : Cfg α) (hb : BoxOk c.lb c.ub)
    (x0 : Vec α) (f0 : α) (g0 d : Vec α) (nit : Nat) (sf sf' : SF α) (maxIter : Nat)
    (olog olog' : List (OReq α)) (stp? : Option α) (hc : Coh u.toSFUser sf)
    (hm : sf.mode = .callable) (hx : x0.length = c.lb.length) (hd : d.length = x0.length)
    (h : lineSearch u o c x0 f0 g0 d nit sf maxIter olog = .ok (sf', stp?, olog')) :
    ∃ new, sf'.log = sf.log ++ new ∧ ∀ call ∈ new, InBox c.lb c.ub call.arg := by
  obtain ⟨new, hnew, hall⟩ := (lineSearch_sum u o c x0 f0 g0 d nit sf sf' maxIter olog olog' stp? hc h).log
  refine ⟨new, hnew, ?_⟩
  intro call hcall
  obtain ⟨stp, hev⟩ := hall call hcall
  rcases hev.2 with h1 | ⟨h2, -⟩
  · rw [h1]; exact trial_inBox hb x0 d stp hx hd
  · rw [hm] at h2; cases h2

/-- **C11 (2)** at most `maxIter` objective evaluations (callable gradient). -/
theorem ls_evals_le_cap (u : User α ε) (o : Oracles α δ) (c : Cfg α)
    (x0 : Vec α) (f0 : α) (g0 d : Vec α) (nit : Nat) (sf sf' : SF α) (maxIter : Nat)
    (olog olog' : List (OReq α)) (stp? : Option α) (hc : Coh u.toSFUser sf)
    (hm : sf.mode = .callable)
    (h : lineSearch u o c x0 f0 g0 d nit sf maxIter olog = .ok (sf', stp?, olog')) :
    sf'.nfev ≤ sf.nfev + maxIter :=
  (lineSearch_sum u o c x0 f0 g0 d nit sf sf' maxIter olog olog' stp? hc h).nfev_le hm

/-- **C11 (3)** the search returns `None` or a step whose objective value (the user's
function at the clipped trial point, times the scale) is strictly below the start. -/
theorem ls_result_downhill (u : User α ε) (o : Oracles α δ) (c : Cfg α)
    (x0 : Vec α) (f0 : α) (g0 d : Vec α) (nit : Nat) (sf sf' : SF α) (maxIter : Nat)
    (olog olog' : List (OReq α)) (stp : α) (hc : Coh u.toSFUser sf)
    (h : lineSearch u o c x0 f0 g0 d nit sf maxIter olog = .ok (sf', some stp, olog')) :
    ∃ v, u.F (trial x0 d c.lb c.ub stp) = .ok v ∧ v * sf.scale < f0 :=
  C03.ls_strict_decrease u o c x0 f0 g0 d nit sf sf' maxIter olog olog' stp hc h

end U

section F
variable {α : Type} [Field α] [LinearOrder α] [IsStrictOrderedRing α]
attribute [local instance] fieldFloatLike

/-- **C11 (4)** (exact arithmetic, finite bounds, later iterations) every step `a` with
`0 ≤ a ≤ max_allowed_steplength` keeps `x + a·d` in the box, and the bound never exceeds the
user's maximum step. -/
theorem maxStep_feasible (x d lb ub : Vec α) (maxStep : α) (nit : Nat) (hn : nit ≠ 0)
    (hx : InBoxF lb ub x) (hd : d.length = x.length) (a : α) (h0 : 0 ≤ a)
    (ha : a ≤ maxAllowedStep x d lb ub maxStep nit) :
    InBoxF lb ub (vadd x (smul a d)) ∧
      maxAllowedStep x d lb ub maxStep nit ≤ maxStep := by
  obtain ⟨h1, h2⟩ := maxAllowedStep_le x d lb ub maxStep nit hn
  exact ⟨feasible_of_le_cand x d lb ub hx hd a h0 (fun t ht => le_trans ha (h2 t ht)), h1⟩

/-- `InBoxF` (with `≤`) gives `InBox` (with `¬ <`) -/
theorem inBox_of_inBoxF {lb ub p : Vec α} (h : InBoxF lb ub p) : InBox lb ub p := by
  induction lb generalizing ub p with
  | nil => cases ub <;> cases p <;> simp_all [InBoxF, InBox]
  | cons l ls ih =>
    cases ub with
    | nil => simp [InBoxF] at h
    | cons u us =>
      cases p with
      | nil => simp [InBoxF] at h
      | cons q qs =>
        simp only [InBoxF] at h
        simp only [InBox]
        exact ⟨⟨not_lt.2 h.1.1, not_lt.2 h.1.2⟩, ih h.2⟩

/-- **C11 (4')** consequently, in exact arithmetic, the projection in the trial point is the
identity for every step the stepper may propose (`0 ≤ a ≤ stpmax = max_allowed_steplength`, see
`dcsrch_steps_in_range`): the line search evaluates points of the ray `x + a·d` itself. -/
theorem ls_trials_on_ray (x d lb ub : Vec α) (maxStep : α) (nit : Nat) (hn : nit ≠ 0)
    (hx : InBoxF lb ub x) (hd : d.length = x.length) (a : α) (h0 : 0 ≤ a)
    (ha : a ≤ maxAllowedStep x d lb ub maxStep nit) :
    trial x d lb ub a = vadd x (smul a d) :=
  clip_of_inBox (inBox_of_inBoxF (maxStep_feasible x d lb ub maxStep nit hn hx hd a h0 ha).1)

/-- **C11 (10)** (exact arithmetic) why a converged line search yields a usable curvature pair: with
`φ'(0) = g₀ᵀd < 0`, the curvature condition `|φ'(stp)| ≤ gtol·(−φ'(0))`, `gtol < 1` and `stp > 0`,
the pair `s = stp·d`, `y = g₁ − g₀` has `sᵀy = stp·(φ'(stp) − φ'(0)) > 0`. -/
theorem wolfe_gives_curvature (dphi0 dphi1 gtol stp : α) (h0 : dphi0 < 0) (hg : gtol < 1) (hs : 0 < stp)
    (hw : |dphi1| ≤ gtol * (-dphi0)) : 0 < stp * (dphi1 - dphi0) := by
  have h1 : -(gtol * (-dphi0)) ≤ dphi1 := by
    have := neg_abs_le dphi1
    linarith
  have h2 : gtol * (-dphi0) < -dphi0 := by
    have : 0 < -dphi0 := by linarith
    nlinarith
  exact mul_pos hs (by linarith)

end F

/-! ### The stepper itself (model of SciPy's `DCSRCH._iterate` + `dcstep`, Model/Dcsrch.lean) -/
section stepper
open Dcsrch
variable {α : Type} [LinearOrder α] [Add α] [Sub α] [Mul α] [Div α] [Neg α] [OfNat α 0] [OfNat α 1]
  [FloatLike α] [DcOps α]

/-- **C11 (5)** every step the Moré–Thuente stepper asks the line search to evaluate lies in
`[0, stpmax]` — for any arithmetic and whatever values `f`, `g` the caller reports (level U): the
contract the theorems above treat as an oracle property holds for the model of the stepper that
the correspondence check compares bit for bit with SciPy's. -/
theorem dcsrch_steps_in_range (ftol gtol xtol stpmin stpmax stp0 : α) (answers : List (α × α)) :
    ∀ p ∈ trace (DC.new ftol gtol xtol stpmin stpmax) stp0 .start answers,
      p.2 = .fg → ¬ p.1 < 0 ∧ ¬ stpmax < p.1 :=
  trace_in_range stpmin stpmax answers _ stp0 .start (fun _ => ⟨rfl, rfl⟩) (fun h => absurd rfl h)

/-- **C11 (6)** with that stepper plugged into the driver's line search (`ConcreteStepper`: the
oracle *is* the DCSRCH model), the step the search returns lies in
`[0, max_allowed_steplength]` — any arithmetic (level U). -/
theorem ls_result_in_range {ε : Type} (u : User α ε) (o : Oracles α (DC α)) (ho : ConcreteStepper o) (c : Cfg α)
    (x0 : Vec α) (f0 : α) (g0 d : Vec α) (nit : Nat) (sf sf' : SF α) (maxIter : Nat) (olog olog' : List (OReq α))
    (stp : α) (h : lineSearch u o c x0 f0 g0 d nit sf maxIter olog = .ok (sf', some stp, olog')) :
    ¬ stp < 0 ∧ ¬ maxAllowedStep x0 d c.lb c.ub c.maxStep nit < stp :=
  lineSearch_range u o ho c x0 f0 g0 d nit sf sf' maxIter olog olog' stp h

/-- **C11 (7)** … and every user evaluation the search makes is at the clipped trial point of a
step in that range (level U). -/
theorem ls_steps_in_range {ε : Type} (u : User α ε) (o : Oracles α (DC α)) (ho : ConcreteStepper o) (c : Cfg α)
    (x0 : Vec α) (f0 : α) (g0 d : Vec α) (nit : Nat) (sf sf' : SF α) (maxIter : Nat) (olog olog' : List (OReq α))
    (stp? : Option α) (hc : Coh u.toSFUser sf)
    (h : lineSearch u o c x0 f0 g0 d nit sf maxIter olog = .ok (sf', stp?, olog')) :
    ∃ new, sf'.log = sf.log ++ new ∧ ∀ call ∈ new, ∃ stp,
      (¬ stp < 0 ∧ ¬ maxAllowedStep x0 d c.lb c.ub c.maxStep nit < stp) ∧
      EvalAt u.toSFUser sf.mode (trial x0 d c.lb c.ub stp) call :=
  lineSearch_log_range u o ho c x0 f0 g0 d nit sf sf' maxIter olog olog' stp? hc h

/-- **C11 (9)** the stepper reports convergence only at a step satisfying the strong Wolfe
conditions it was built with: sufficient decrease `f ≤ f₀ + stp·(ftol·g₀)` (`gtest = ftol·g₀` is set
by the start call) and curvature `|g| ≤ gtol·(−g₀)` — for any arithmetic and any history (level U;
comparisons are the stepper's own `≤`). The step it returns with that verdict is the one just
evaluated. -/
theorem dcsrch_conv_is_wolfe (st : DC α) (stp f g : α) (task : Task) (ht : task ≠ .start)
    (h : (iterate st stp f g task).2.2 = .conv) :
    DcOps.le f (st.finit + stp * st.gtest) = true ∧ DcOps.le (fabs g) (st.gtol * (-st.ginit)) = true ∧
      (iterate st stp f g task).2.1 = stp := by
  unfold iterate at h ⊢
  rw [if_neg ht] at h ⊢
  dsimp only at h ⊢
  split at h
  · rename_i hc
    simp only [Bool.and_eq_true] at hc
    rw [if_pos (by simp only [Bool.and_eq_true]; exact hc)]
    exact ⟨hc.1, hc.2, rfl⟩
  · split at h
    · cases h
    · exfalso
      unfold advance finish at h
      cases h

/-- the complete executable model (`concreteOracles`, Model/Kernels.lean — the one `drv solve` runs
natively against the package) uses the DCSRCH model as its stepper … -/
theorem concreteOracles_stepper (lb ub : Vec α) (e : α) : ConcreteStepper (concreteOracles lb ub e) :=
  ⟨fun _ _ _ _ _ _ => rfl, fun _ _ _ _ _ => rfl⟩

/-- **C11 (7')** … so in the complete model every evaluation of every line search is at the clipped
trial point of a step in `[0, max_allowed_steplength]`, with no hypothesis on the kernels or the stepper. -/
theorem concrete_ls_steps_in_range {ε : Type} (u : User α ε) (c : Cfg α) (e : α)
    (x0 : Vec α) (f0 : α) (g0 d : Vec α) (nit : Nat) (sf sf' : SF α) (maxIter : Nat) (olog olog' : List (OReq α))
    (stp? : Option α) (hc : Coh u.toSFUser sf)
    (h : lineSearch u (concreteOracles c.lb c.ub e) c x0 f0 g0 d nit sf maxIter olog = .ok (sf', stp?, olog')) :
    ∃ new, sf'.log = sf.log ++ new ∧ ∀ call ∈ new, ∃ stp,
      (¬ stp < 0 ∧ ¬ maxAllowedStep x0 d c.lb c.ub c.maxStep nit < stp) ∧
      EvalAt u.toSFUser sf.mode (trial x0 d c.lb c.ub stp) call :=
  ls_steps_in_range u _ (concreteOracles_stepper c.lb c.ub e) c x0 f0 g0 d nit sf sf' maxIter olog olog' stp? hc h

end stepper


/-! ### Exact arithmetic + the concrete stepper: the line search evaluates feasible points of the ray -/
section rayF
open Dcsrch
variable {α : Type} [Field α] [LinearOrder α] [IsStrictOrderedRing α] [DcOps α]
attribute [local instance] fieldFloatLike

/-- **C11 (8)** (exact arithmetic, iteration ≥ 1, feasible start, DCSRCH model as the stepper)
every evaluation of the line search is at `x + a·d` with `0 ≤ a ≤ max_allowed_steplength ≤ maxstep`,
a point of the box: no projection is ever active. -/
theorem ls_evals_on_ray {ε : Type} (u : User α ε) (o : Oracles α (DC α)) (ho : ConcreteStepper o) (c : Cfg α)
    (x0 : Vec α) (f0 : α) (g0 d : Vec α) (nit : Nat) (hn : nit ≠ 0) (sf sf' : SF α) (maxIter : Nat)
    (olog olog' : List (OReq α)) (stp? : Option α) (hc : Coh u.toSFUser sf)
    (hx : InBoxF c.lb c.ub x0) (hd : d.length = x0.length)
    (h : lineSearch u o c x0 f0 g0 d nit sf maxIter olog = .ok (sf', stp?, olog')) :
    ∃ new, sf'.log = sf.log ++ new ∧ ∀ call ∈ new, ∃ a, 0 ≤ a ∧ a ≤ c.maxStep ∧
      InBoxF c.lb c.ub (vadd x0 (smul a d)) ∧ EvalAt u.toSFUser sf.mode (vadd x0 (smul a d)) call := by
  obtain ⟨new, hnew, hall⟩ := ls_steps_in_range u o ho c x0 f0 g0 d nit sf sf' maxIter olog olog' stp? hc h
  refine ⟨new, hnew, fun call hcall => ?_⟩
  obtain ⟨a, ⟨h0, h1⟩, hev⟩ := hall call hcall
  have h0' : 0 ≤ a := not_lt.1 h0
  have h1' := not_lt.1 h1
  obtain ⟨hin, hle⟩ := maxStep_feasible x0 d c.lb c.ub c.maxStep nit hn hx hd a h0' h1'
  refine ⟨a, h0', le_trans h1' hle, hin, ?_⟩
  rw [← ls_trials_on_ray x0 d c.lb c.ub c.maxStep nit hn hx hd a h0' h1']
  exact hev

end rayF

/-! ### Non-vacuity (over ℚ): x = (0, 1), d = (2, -1), box [-1,1]² — the largest feasible step
is 1/2 (first coordinate hits the upper bound). -/
section nonvacuous
attribute [local instance] fieldFloatLike
example : maxAllowedStep ([0, 1] : Vec ℚ) [2, -1] [-1, -1] [1, 1] 100 3 = 1 / 2 := by
  decide +kernel


instance : Dcsrch.DcOps ℚ := ⟨fun x => x * x, fun a b => decide (a ≤ b), fun a b => decide (a = b)⟩
/-- phi(t) = (t − 5)², start step 1, stpmax 10, gtol 1/10: the stepper asks for t = 1 and, given
phi(1) = 16, phi'(1) = −8, extrapolates to the minimiser t = 5 -/
example : Dcsrch.trace (Dcsrch.DC.new (1/1000 : ℚ) (1/10) (1/10) 0 10) 1 .start [(25, -10), (16, -8)]
    = [(1, .fg), (5, .fg)] := by decide +kernel
/-- the hypothesis `ConcreteStepper` of (6)–(8) is met by the oracle record that plugs the model of
DCSRCH into the driver (the stepper model is compared bit for bit with SciPy's on the calls
recorded in real line searches, harness/props/c11.py) -/
example (xbar : Vec ℚ → Vec ℚ → Mats ℚ → Vec ℚ) :
    ConcreteStepper ({ xbar := xbar, dcNew := fun _ _ ftol gtol xtol stpmax => Dcsrch.DC.new ftol gtol xtol 0 stpmax,
                       dcIter := Dcsrch.iterate } : Oracles ℚ (Dcsrch.DC ℚ)) :=
  ⟨fun _ _ _ _ _ _ => rfl, fun _ _ _ _ _ => rfl⟩
end nonvacuous

end Lbfgsb.C11
