/-
  C09 — the subspace point does not depend on the units.

  `subspace_point_units` (Proofs/UnitsSub): two calls of the model on the same problem in other units (objective multiplied by `a > 0`,
  variables by `b > 0`, Cauchy points related by `x_cp' = b x_cp`, models by `B' = (a/b²) B`), both satisfying the specification of C09
  (`SubSpec`: what `subspace_spec` proves under the solve / pivot / definiteness contexts) with a positive definite `B`, return points
  related by `x̄' = b x̄`: the free set and the truncation factor `α*` are invariant, the projection is equivariant, and the masked Newton
  step is determined by its specification. `subspace_units_nofactor`: with an empty memory this holds for every feasible Cauchy point,
  every `θ > 0` and every pair of positive factors — an absolute threshold on the step components (seeded change C09-h) contradicts it.
-/
import LbfgsbVerif.Proofs.UnitsSub

set_option linter.unusedSectionVars false

namespace Lbfgsb.C09
open Lbfgsb Matrix Lbfgsb.Units
variable {K : Type} [Field K] [LinearOrder K] [IsStrictOrderedRing K]

/-- **C09 (units)** -/
theorem subspace_point_units (a b : K) (ha : 0 < a) (hb : 0 < b) (i i' : SubIn K) (n k k' : Nat)
    (Mm : Matrix (Fin k) (Fin k) K) (Mm' : Matrix (Fin k') (Fin k') K)
    (h : SameProblem a b i.toCauchyIn i'.toCauchyIn) (hxc : i'.xc = smul b i.xc)
    (hx : i.x.length = n) (hg : i.g.length = n) (hxcl : i.xc.length = n)
    (spec : SubSpec i n k Mm) (spec' : SubSpec i' n k' Mm')
    (hB : bmat i'.theta (wmat n k' i'.W) Mm' = (a / (b * b)) • bmat i.theta (wmat n k i.W) Mm)
    (pd : ∀ v : Fin n → K, v ≠ 0 → 0 < v ⬝ᵥ (bmat i.theta (wmat n k i.W) Mm *ᵥ v)) :
    subspaceMin i' = smul b (subspaceMin i) :=
  subspace_units a b ha hb i i' n k k' Mm Mm' h hxc hx hg hxcl spec spec' hB pd

/-- **C09 (units, empty memory)** -/
theorem subspace_units_nofactor (a b : K) (ha : 0 < a) (hb : 0 < b) (i i' : SubIn K) (n k k' : Nat)
    (h : SameProblem a b i.toCauchyIn i'.toCauchyIn) (hxc : i'.xc = smul b i.xc)
    (hθ : 0 < i.theta) (hθ' : i'.theta = a / (b * b) * i.theta)
    (hx : i.x.length = n) (hg : i.g.length = n) (hxcl : i.xc.length = n) (hW : i.W.length = n) (hW' : i'.W.length = n)
    (hrow : ∀ r, r < n → (i.W.getD r []).length = k) (hrow' : ∀ r, r < n → (i'.W.getD r []).length = k')
    (huf : i.useFactor = false) (huf' : i'.useFactor = false) (hbox : InBoxF i.lb i.ub i.xc) :
    subspaceMin i' = smul b (subspaceMin i) := by
  have hc0 : 0 < a / (b * b) := div_pos ha (mul_pos hb hb)
  have hθ'pos : 0 < i'.theta := by rw [hθ']; exact mul_pos hc0 hθ
  have spec := subspace_spec0 i n k ⟨hx, hg, hxcl, hW, hrow, hbox, ne_of_gt hθ, huf⟩
  have spec' := subspace_spec0 i' n k' ⟨by rw [h.hx, smul_length, hx], by rw [h.hg, smul_length, hg], by rw [hxc, smul_length, hxcl],
    hW', hrow', by rw [h.hlb, h.hub, hxc]; exact inBoxF_smul b hb _ _ _ hbox, ne_of_gt hθ'pos, huf'⟩
  apply subspace_units a b ha hb i i' n k k' 0 0 h hxc hx hg hxcl spec spec'
  · unfold bmat
    rw [hθ']
    simp only [Matrix.mul_zero, Matrix.zero_mul, sub_zero, smul_smul]
  · intro v hv
    rw [bmat_mulVec, zero_mulVec, mulVec_zero, sub_zero, dotProduct_smul, smul_eq_mul]
    exact mul_pos hθ (dot_self_pos v hv)

/-! ### Non-vacuity (ℚ): the instance of C08Units with the Cauchy point `(¼, −1)` (second variable on its lower bound) -/
section nonvacuous

def uS : SubIn ℚ :=
  { x := [0, 0], g := [-1, 2], lb := [-1, -1], ub := [1, 1], theta := 1, W := [[0], [0]], Minv := [[0]], useFactor := false, epsFsec := 0,
    xc := [1 / 4, -1], c := [0] }
def uS' : SubIn ℚ :=
  { x := [0, 0], g := [-3 / 5, 6 / 5], lb := [-5, -5], ub := [5, 5], theta := 3 / 25, W := [[0], [0]], Minv := [[0]], useFactor := false,
    epsFsec := 0, xc := [5 / 4, -5], c := [0] }

example : subspaceMin uS' = smul 5 (subspaceMin uS) :=
  subspace_units_nofactor 3 5 (by norm_num) (by norm_num) uS uS' 2 1 1
    ⟨by decide +kernel, by decide +kernel, by decide +kernel, by decide +kernel⟩ (by decide +kernel) (by norm_num [uS]) (by norm_num [uS, uS'])
    rfl rfl rfl rfl rfl
    (by intro r hr; match r, hr with | 0, _ => rfl | 1, _ => rfl)
    (by intro r hr; match r, hr with | 0, _ => rfl | 1, _ => rfl)
    rfl rfl (by simp [uS, InBoxF]; norm_num)

/-- … and the two sides are what one expects: the first variable moves to the unconstrained minimiser `x₁ = 1` of `−x₁ + ½x₁²`, the
second stays on its bound -/
example : subspaceMin uS = [1, -1] ∧ subspaceMin uS' = [5, -5] := by decide +kernel

end nonvacuous

end Lbfgsb.C09
