/-
  C20 — failures of user callables surface unchanged and leave nothing behind.

  * `error_is_users`: the model of `minimize_lbfgsb` returns an error only if a user callable
    returned exactly that error: nothing is replaced, wrapped or fabricated. (The model has no
    handler; the correspondence check replays fault-injected runs of the real code through it,
    so a handler introduced in the code shows up as a disagreement.)
  * `handlers_transparent`: about the *source*: in the table of every `try/except` in
    `lbfgsb/*.py`, regenerated from /repo on every run by translate/handlers2lean.py, every
    handler whose body can reach a user callable (conservative name-based call graph, functions
    handed over as arguments included) is *transparent*: each clause re-raises the caught exception
    object itself, or carries it in a private class that is unwrapped again (`raise c.args[0]`) by a
    handler around the only place the carrying function is handed to — so what reaches the caller is
    the user's exception object. (Until the repair 9f4464d of /repo there was no such handler at all and
    the theorem read "no handler reaches a user callable"; the repair needs one pair, to carry a
    `StopIteration` of the objective across the differencing routine's internal iterator.)
    `no_swallowing_handler_reaches_user`: in particular none of them ends without raising.
  * `no_residue`: a failed run leaves nothing behind because there is nowhere to leave it: the
    tables of every module-level / class-level mutable object, memoised function, function
    attribute and mutable default argument of the package (regenerated from the source on every run
    by translate/state2lean.py) contain no write — the only state is that of the per-call objects,
    which die with the failed call. That the identical fault-free call afterwards behaves as before
    is checked on the real code after every injected fault.
-/
import LbfgsbVerif.Proofs.C20
import LbfgsbVerif.Generated.Handlers
import LbfgsbVerif.Generated.State

namespace Lbfgsb.C20
open Lbfgsb
variable {α ε δ : Type}
variable [Add α] [Sub α] [Mul α] [Div α] [Neg α] [LT α] [DecidableLT α]
  [OfNat α 0] [OfNat α 1] [FloatLike α]

/-- **C20 (1)** an error returned by the run is the error of a user callable, unchanged. -/
theorem error_is_users (u : User α ε) (o : Oracles α δ) (c : Cfg α) (e : ε)
    (h : minimize u o c = .error e) : UserErr u e := minimize_err h

/-- **C20 (2)** every `try` of the package whose body can reach a user callable is transparent:
its clauses only re-raise the caught exception object (directly, or through a private carrier that is
unwrapped again). -/
theorem handlers_transparent :
    Generated.handlers.all (fun h => !h.reachesUser || h.transparent) = true := by decide

/-- … and none of them has a clause that ends without raising. -/
theorem no_swallowing_handler_reaches_user :
    Generated.handlers.all (fun h => !(h.reachesUser && h.swallows)) = true := by decide

/-- **C20 (3)** nothing is left behind: the package has no state that outlives a call. -/
theorem no_residue :
    (∀ g ∈ Generated.State.globals, g.writes = []) ∧ (∀ d ∈ Generated.State.defaults, d.writes = []) := by
  decide

/-! ### Non-vacuity: a failing gradient at the second evaluation surfaces as that error. -/
section nonvacuous
instance : FloatLike Int := ⟨id, fun _ => true⟩

def uZ : User Int String where
  F x := .ok (dot x x)
  Gr x := if x = [3, 2] then .ok (smul 2 x) else .error "boom"
  fdPts _ _ := []
  fdComb _ _ _ := []
  callback _ := .ok false
  update i := .ok ⟨i.f0, i.f0Old, i.grad, i.G⟩
  scaler _ _ := .ok 1
  ftargetFn _ := .ok (-5)
  gtolFn _ := .ok 0

def oZ : Oracles Int Nat where
  xbar x _ _ := x.map (· - 1)
  dcNew _ _ _ _ _ _ := 0
  dcIter n stp _ _ _ := if n = 0 then (1, stp, .fg) else (n + 1, stp, .conv)

def cZ : Cfg Int :=
  { x0 := [3, 2], lb := [-10, -10], ub := [10, 10], mode := .callable, maxcor := 3, maxiter := 2,
    maxfun := 20, maxls := 4, ftol := 0, gtol := .const 0, ftarget := none, maxStep := 100,
    ftolLS := 0, gtolLS := 1, xtolLS := 0, epsSY := 0, hasCallback := true, hasUpdate := false,
    hasScaler := false, checkpoint := none }

example : minimize uZ oZ cZ = .error "boom" := rfl

end nonvacuous

end Lbfgsb.C20
