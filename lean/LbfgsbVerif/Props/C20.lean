/-
  C20 — failures of user callables surface unchanged and leave nothing behind.

  * `error_is_users`: the model of `minimize_lbfgsb` returns an error only if a user callable
    returned exactly that error: nothing is replaced, wrapped or fabricated. (The model has no
    handler; the correspondence check replays fault-injected runs of the real code through it,
    so a handler introduced in the code shows up as a disagreement.)
  * `no_handler_reaches_user`: about the *source*: the table of every `try/except` in
    `lbfgsb/*.py`, regenerated from /repo on every run by translate/handlers2lean.py, contains
    no handler whose body can reach a user callable (conservative name-based call graph).
  * `no_residue`: a failed run leaves nothing behind because there is nowhere to leave it: the
    tables of every module-level / class-level mutable object, memoised function, function
    attribute and mutable default argument of the package (regenerated from the source on every run
    by translate/state2lean.py) contain no write — the only state is that of the per-call objects,
    which die with the failed call. That the identical fault-free call afterwards behaves as before
    is checked on the real code after every injected fault.
-/
import LbfgsbVerif.Proofs.C20
import LbfgsbVerif.Generated.Handlers
import LbfgsbVerif.Generated.State

namespace Lbfgsb.C20
open Lbfgsb
variable {α ε δ : Type}
variable [Add α] [Sub α] [Mul α] [Div α] [Neg α] [LT α] [DecidableLT α]
  [OfNat α 0] [OfNat α 1] [FloatLike α]

/-- **C20 (1)** an error returned by the run is the error of a user callable, unchanged. -/
theorem error_is_users (u : User α ε) (o : Oracles α δ) (c : Cfg α) (e : ε)
    (h : minimize u o c = .error e) : UserErr u e := minimize_err h

/-- **C20 (2)** no `try` body in the package can reach a user callable. -/
theorem no_handler_reaches_user :
    Generated.handlers.all (fun h => !h.reachesUser) = true := by decide

/-- **C20 (3)** nothing is left behind: the package has no state that outlives a call. -/
theorem no_residue :
    (∀ g ∈ Generated.State.globals, g.writes = []) ∧ (∀ d ∈ Generated.State.defaults, d.writes = []) := by
  decide

/-! ### Non-vacuity: a failing gradient at the second evaluation surfaces as that error. -/
section nonvacuous
instance : FloatLike Int := ⟨id, fun _ => true⟩

def uZ : User Int String where
  F x := .ok (dot x x)
  Gr x := if x = [3, 2] then .ok (smul 2 x) else .error "boom"
  fdPts _ _ := []
  fdComb _ _ _ := []
  callback _ := .ok false
  update i := .ok ⟨i.f0, i.f0Old, i.grad, i.G⟩
  scaler _ _ := .ok 1
  ftargetFn _ := .ok (-5)
  gtolFn _ := .ok 0

def oZ : Oracles Int Nat where
  xbar x _ _ := x.map (· - 1)
  dcNew _ _ _ _ _ _ := 0
  dcIter n stp _ _ _ := if n = 0 then (1, stp, .fg) else (n + 1, stp, .conv)

def cZ : Cfg Int :=
  { x0 := [3, 2], lb := [-10, -10], ub := [10, 10], mode := .callable, maxcor := 3, maxiter := 2,
    maxfun := 20, maxls := 4, ftol := 0, gtol := .const 0, ftarget := none, maxStep := 100,
    ftolLS := 0, gtolLS := 1, xtolLS := 0, epsSY := 0, hasCallback := true, hasUpdate := false,
    hasScaler := false, checkpoint := none }

example : minimize uZ oZ cZ = .error "boom" := rfl

end nonvacuous

end Lbfgsb.C20
