/-
  C04/C01 — the stationarity measure used by the `pgtol` stop test, the infinity norm of the projected gradient, does not depend on
  where the origin of the variables is put: translating `x`, `lb`, `ub` by the same constant leaves `projgr` unchanged.
-/
import LbfgsbVerif.Proofs.UnitsSub

set_option linter.unusedSectionVars false

namespace Lbfgsb.C04
open Lbfgsb Lbfgsb.Units
variable {K : Type} [Field K] [LinearOrder K] [IsStrictOrderedRing K]
attribute [local instance] fieldFloatLike

theorem clip1_shift (c l u x : K) : clip1 (l + c) (u + c) (x + c) = clip1 l u x + c := by
  unfold clip1
  simp only [add_lt_add_iff_right]
  split
  · rfl
  · split <;> rfl

theorem clip_nil_lb (v ub : Vec K) : clip v [] ub = v := by
  cases v <;> simp [clip]

theorem clip_nil_ub (v lb : Vec K) : clip v lb [] = v := by
  cases v <;> cases lb <;> simp [clip]

theorem vsub_vsub_shift (c : K) (x g : Vec K) :
    vsub (vsub (x.map (· + c)) g) (x.map (· + c)) = vsub (vsub x g) x := by
  induction x generalizing g with
  | nil => simp [vsub, vzip]
  | cons xi xs ih =>
    cases g with
    | nil => simp [vsub, vzip]
    | cons gi gs =>
      have := ih gs
      simp only [vsub, vzip, List.map_cons] at this ⊢
      rw [this]
      congr 1
      ring

theorem projgr_vec_shift (c : K) (x g lb ub : Vec K) :
    vsub (clip (vsub (x.map (· + c)) g) (lb.map (· + c)) (ub.map (· + c))) (x.map (· + c))
      = vsub (clip (vsub x g) lb ub) x := by
  induction x generalizing g lb ub with
  | nil => simp [vsub, vzip]
  | cons xi xs ih =>
    cases g with
    | nil => simp [vsub, vzip, clip]
    | cons gi gs =>
      cases lb with
      | nil =>
        rw [List.map_nil, clip_nil_lb, clip_nil_lb]
        exact vsub_vsub_shift c _ _
      | cons l ls =>
        cases ub with
        | nil =>
          rw [List.map_nil, clip_nil_ub, clip_nil_ub]
          exact vsub_vsub_shift c _ _
        | cons u us =>
          have := ih gs ls us
          simp only [vsub, vzip, clip, List.map_cons] at this ⊢
          rw [this]
          congr 1
          have : xi + c - gi = (xi - gi) + c := by ring
          rw [this, clip1_shift]; ring

/-- **C04 (origin)** — the projected-gradient norm tested against `pgtol` is the same after a translation of the variables and the box -/
theorem projgr_shift (c : K) (x g lb ub : Vec K) :
    projgr (x.map (· + c)) g (lb.map (· + c)) (ub.map (· + c)) = projgr x g lb ub := by
  unfold projgr
  rw [projgr_vec_shift]

example : projgr ([0, 3].map (· + 7)) [2, -5] ([-1, -1].map (· + 7)) ([1, 4].map (· + 7)) = (1 : ℚ) := by
  rw [projgr_shift 7]
  decide +kernel

end Lbfgsb.C04
