/-
  C04/C01 — the stationarity measure used by the `pgtol` stop test, the infinity norm of the projected gradient, does not depend on
  where the origin of the variables is put: translating `x`, `lb`, `ub` by the same constant leaves `projgr` unchanged.
-/
import LbfgsbVerif.Proofs.UnitsSub
import LbfgsbVerif.Proofs.UnitsKernel

set_option linter.unusedSectionVars false

namespace Lbfgsb.C04
open Lbfgsb Lbfgsb.Units
variable {K : Type} [Field K] [LinearOrder K] [IsStrictOrderedRing K]
attribute [local instance] fieldFloatLike

theorem clip1_shift (c l u x : K) : clip1 (l + c) (u + c) (x + c) = clip1 l u x + c := by
  unfold clip1
  simp only [add_lt_add_iff_right]
  split
  · rfl
  · split <;> rfl

theorem clip_nil_lb (v ub : Vec K) : clip v [] ub = v := by
  cases v <;> simp [clip]

theorem clip_nil_ub (v lb : Vec K) : clip v lb [] = v := by
  cases v <;> cases lb <;> simp [clip]

theorem vsub_vsub_shift (c : K) (x g : Vec K) :
    vsub (vsub (x.map (· + c)) g) (x.map (· + c)) = vsub (vsub x g) x := by
  induction x generalizing g with
  | nil => simp [vsub, vzip]
  | cons xi xs ih =>
    cases g with
    | nil => simp [vsub, vzip]
    | cons gi gs =>
      have := ih gs
      simp only [vsub, vzip, List.map_cons] at this ⊢
      rw [this]
      congr 1
      ring

theorem projgr_vec_shift (c : K) (x g lb ub : Vec K) :
    vsub (clip (vsub (x.map (· + c)) g) (lb.map (· + c)) (ub.map (· + c))) (x.map (· + c))
      = vsub (clip (vsub x g) lb ub) x := by
  induction x generalizing g lb ub with
  | nil => simp [vsub, vzip]
  | cons xi xs ih =>
    cases g with
    | nil => simp [vsub, vzip, clip]
    | cons gi gs =>
      cases lb with
      | nil =>
        rw [List.map_nil, clip_nil_lb, clip_nil_lb]
        exact vsub_vsub_shift c _ _
      | cons l ls =>
        cases ub with
        | nil =>
          rw [List.map_nil, clip_nil_ub, clip_nil_ub]
          exact vsub_vsub_shift c _ _
        | cons u us =>
          have := ih gs ls us
          simp only [vsub, vzip, clip, List.map_cons] at this ⊢
          rw [this]
          congr 1
          have : xi + c - gi = (xi - gi) + c := by ring
          rw [this, clip1_shift]; ring

/-- **C04 (origin)** — the projected-gradient norm tested against `pgtol` is the same after a translation of the variables and the box -/
theorem projgr_shift (c : K) (x g lb ub : Vec K) :
    projgr (x.map (· + c)) g (lb.map (· + c)) (ub.map (· + c)) = projgr x g lb ub := by
  unfold projgr
  rw [projgr_vec_shift]

example : projgr ([0, 3].map (· + 7)) [2, -5] ([-1, -1].map (· + 7)) ([1, 4].map (· + 7)) = (1 : ℚ) := by
  rw [projgr_shift 7]
  decide +kernel

theorem fabs_smul (b a : K) (hb : 0 < b) : fabs (b * a) = b * fabs a := by
  unfold fabs
  have h : b * a < 0 ↔ a < 0 := by
    constructor
    · intro h; by_contra hn; exact absurd h (not_lt.2 (mul_nonneg (le_of_lt hb) (not_lt.1 hn)))
    · intro h; exact mul_neg_of_pos_of_neg hb h
  by_cases ha : a < 0
  · rw [if_pos ha, if_pos (h.2 ha)]; ring
  · rw [if_neg ha, if_neg (fun h' => ha (h.1 h'))]

theorem fmax_smul (b a c : K) (hb : 0 < b) : fmax (b * a) (b * c) = b * fmax a c := by
  unfold fmax
  have h : b * a < b * c ↔ a < c := mul_lt_mul_iff_right₀ hb
  by_cases hac : a < c
  · rw [if_pos hac, if_pos (h.2 hac)]
  · rw [if_neg hac, if_neg (fun h' => hac (h.1 h'))]

theorem maxAbs_fold_smul (b : K) (hb : 0 < b) (v : Vec K) (acc : K) :
    (smul b v).foldl (fun acc a => fmax acc (fabs a)) (b * acc) = b * v.foldl (fun acc a => fmax acc (fabs a)) acc := by
  induction v generalizing acc with
  | nil => simp [smul]
  | cons a as ih =>
    have := ih (fmax acc (fabs a))
    simp only [smul, List.map_cons, List.foldl_cons] at this ⊢
    rw [fabs_smul b a hb, fmax_smul b _ _ hb, this]

theorem maxAbs_smul (b : K) (hb : 0 < b) (v : Vec K) : maxAbs (smul b v) = b * maxAbs v := by
  unfold maxAbs
  have := maxAbs_fold_smul b hb v 0
  rwa [mul_zero] at this

/-- **C04 (units)** — with the variables, the box and the gradient all measured in a unit `b` times smaller, the projected-gradient norm is
`b` times larger: the measure is homogeneous, so the `pgtol` test scales with the problem and with nothing else -/
theorem projgr_smul (b : K) (hb : 0 < b) (x g lb ub : Vec K) :
    projgr (smul b x) (smul b g) (smul b lb) (smul b ub) = b * projgr x g lb ub := by
  unfold projgr
  rw [Lbfgsb.Units.vsub_smul, Lbfgsb.Units.clip_smul b hb, Lbfgsb.Units.vsub_smul, maxAbs_smul b hb]

example : projgr (smul 3 [0, 3]) (smul 3 [2, -5]) (smul 3 [-1, -1]) (smul 3 [1, 4]) = (3 : ℚ) := by
  rw [projgr_smul 3 (by norm_num)]
  decide +kernel

end Lbfgsb.C04
