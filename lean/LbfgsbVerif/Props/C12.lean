/-
  C12 — on unconstrained problems the iterates are those of reference Algorithm 778.

  What a theorem can carry here is the part of "being a port of Algorithm 778" that is a matter
  of constants and formulas; that the *sequence of evaluation points* coincides with the
  reference implementation shipped in SciPy is decided by the differential check against it.
    * `linesearch_constants_are_reference`, `memory_defaults_are_reference` (tables regenerated
      from the source on every run by `translate/defaults2lean.py`): the defaults are
      `ftol = 1e-3`, `gtol = 0.9`, `xtol = 0.1` for the Moré–Thuente search, `eps_SY = 2.2e-16`
      for the curvature test, `maxcor = 10`, `maxls = 20`;
    * `theta_formula_is_reference` + `theta_model`: `theta = yᵀy / sᵀy` of the newest pair, in
      the source and in the model the correspondence checks replay;
    * `first_step_formula_is_reference`: first trial step `min(1/‖d‖, stpmax)` at the first
      iteration of a problem without a full box, `1` otherwise;
    * the documented deviations are theorems about the model: `iter0_step_cap` (the maximum step
      at iteration 0 is `1`), and C03 `ls_strict_decrease` / C11 `ls_result_downhill` (the
      accepted step is the lowest trial strictly below the start, not the last one);
    * the algebra of the quasi-Newton step is covered by C10 (`bfgs_secant`, `bfgs_chain_posdef`)
      and C09 (`smw_direction`: the subspace step solves the reduced Newton system).
-/
import LbfgsbVerif.Generated.Defaults
import LbfgsbVerif.Model.Shell
import LbfgsbVerif.Model.Compact

namespace Lbfgsb.C12
open Lbfgsb Generated.Defaults

/-- **C12 (1)** the line-search constants and the curvature threshold are the reference ones. -/
theorem linesearch_constants_are_reference :
    minimizeDefaults.lookup "ftol_linesearch" = some "0.001" ∧
    minimizeDefaults.lookup "gtol_linesearch" = some "0.9" ∧
    minimizeDefaults.lookup "xtol_linesearch" = some "0.1" ∧
    minimizeDefaults.lookup "eps_SY" = some "2.2e-16" ∧
    lineSearchDefaults.lookup "ftol" = some "0.001" ∧
    lineSearchDefaults.lookup "gtol" = some "0.9" ∧
    lineSearchDefaults.lookup "xtol" = some "0.1" := by decide

/-- **C12 (2)** memory size, line-search budget and tolerances documented as defaults. -/
theorem memory_defaults_are_reference :
    minimizeDefaults.lookup "maxcor" = some "10" ∧ minimizeDefaults.lookup "maxls" = some "20" ∧
    minimizeDefaults.lookup "max_steplength" = some "100000000.0" ∧
    minimizeDefaults.lookup "ftol" = some "1e-05" ∧ minimizeDefaults.lookup "gtol" = some "1e-05" ∧
    minimizeDefaults.lookup "maxiter" = some "50" ∧ minimizeDefaults.lookup "maxfun" = some "15000" := by decide

/-- **C12 (3)** scaling of the initial matrix, as written in bfgsmats.py. -/
theorem theta_formula_is_reference : thetaFormula = "yTy / sTy" := by decide

/-- **C12 (4)** first trial step, as written in linesearch.py. -/
theorem first_step_formula_is_reference :
    firstStepFormula = "min(1.0 / np.sqrt(d.dot(d)), max_steplength) | 1.0" := by decide

section model
variable {α : Type} [Add α] [Sub α] [Mul α] [Div α] [Neg α] [LT α] [DecidableLT α]
  [OfNat α 0] [OfNat α 1]

/-- **C12 (3')** the model replayed by the correspondence checks uses `theta = y·y / s·y` of the
newest pair. -/
theorem theta_model (X G : List (Vec α)) (s y : Vec α) (hs : (diffs X).getLast? = some s)
    (hy : (diffs G).getLast? = some y) : thetaOf X G = dot y y / dot s y := by
  simp [thetaOf, hs, hy]

/-- **C12 (5)** documented deviation: at iteration 0 the maximum step is `1`. -/
theorem iter0_step_cap [FloatLike α] (x d lb ub : Vec α) (maxStep : α) :
    maxAllowedStep x d lb ub maxStep 0 = 1 := by
  simp [maxAllowedStep]

end model

/-! ### Non-vacuity -/
example : thetaOf ([[0, 0], [1, 2]] : List (Vec Int)) [[0, 0], [2, 2]] = 8 / 6 := by decide

end Lbfgsb.C12
