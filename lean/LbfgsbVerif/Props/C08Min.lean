/-
  C08 — the generalized Cauchy point is the FIRST LOCAL MINIMISER of the quadratic model along the
  projected steepest-descent path (Byrd–Lu–Nocedal, section 4).

  Level F (ordered field, exact arithmetic) about the executable model `cauchy` of
  `lbfgsb/cauchy.py : get_cauchy_point` (Model/Cauchy.lean — the function the correspondence check
  compares with the Python routine on every intercepted and synthetic input).

  With `B = θI − W M Wᵀ`, `m(z) = gᵀz + ½ zᵀBz`, `P(t) = clip(x − t g)`, `φ(t) = m(P(t) − x)`:
  `cauchy i` returns `P(t*)` for a `t* ≥ 0` such that
    * `φ` is STRICTLY DECREASING on `[0, t*]` (so no `t < t*` is a local minimiser, and
      `φ(t*) ≤ φ(0) = 0`: the model value at the Cauchy point never exceeds the one at `x`),
    * `φ(t*) ≤ φ(t)` on a right neighbourhood `[t*, t* + δ]`, `δ > 0`,
  and the auxiliary vector is `c = Wᵀ(P(t*) − x)`.

  The proof is an invariant of the breakpoint loop (Proofs/CauchyDeriv.lean, CauchySeg.lean,
  CauchyMin.lean): the variables `f'`, `f''` carried by the loop ARE `φ'(t_old⁺)` and `φ''` on the
  current segment (bilinear algebra in Mathlib's `dotProduct`/`mulVec` through a list↔`Fin n → K`
  bridge), the path is the straight line `x_cp + (t − t_old)·d` up to the next breakpoint, and `φ`
  has decreased strictly so far.

  Hypotheses (`MinCtx`): feasible `x`; consistent sizes; the product with the middle matrix
  (`bmv` through the triangular factors in the source, one dense solve in the model) is the exact
  product with a SYMMETRIC matrix `Mm`; `B` positive definite; and the Fortran safeguard
  `f'' := max(f'', 1e-30·f''₀)` never becomes active (`floor`) — when it does, the routine
  deliberately stops short of the minimiser, and the statement is false by design.
-/
import LbfgsbVerif.Proofs.CauchyMin
import Mathlib.Algebra.Order.Field.Rat

namespace Lbfgsb.C08
open Lbfgsb Matrix
variable {K : Type} [Field K] [LinearOrder K] [IsStrictOrderedRing K]

/-- **C08 (first local minimiser)** -/
theorem gcp_first_local_min (i : CauchyIn K) (n k : Nat) (Mm : Matrix (Fin k) (Fin k) K)
    (hk : kOf i = k) (hc : MinCtx i n k Mm (f2orgOf i)) :
    ∃ tF, 0 ≤ tF ∧
      (∀ p q, 0 ≤ p → p < q → q ≤ tF → phi i n k Mm q < phi i n k Mm p) ∧
      (∃ δ, 0 < δ ∧ ∀ τ, tF ≤ τ → τ ≤ tF + δ → phi i n k Mm tF ≤ phi i n k Mm τ) ∧
      (cauchy i).1 = clip (vsub i.x (smul tF i.g)) i.lb i.ub ∧
      vec k (cauchy i).2 =
        (wmat n k i.W)ᵀ *ᵥ (vec n (clip (vsub i.x (smul tF i.g)) i.lb i.ub) - vec n i.x) := by
  obtain ⟨tF, h, hp, hcv, -⟩ := cauchy_first_local_min i n k Mm hk hc
  exact ⟨tF, h.nonneg, h.dec, h.right_min, hp, hcv⟩

/-- **C08 (model value)** the model value at the Cauchy point is never above the value at `x`
(`φ(0) = m(0) = 0`) -/
theorem gcp_model_le (i : CauchyIn K) (n k : Nat) (Mm : Matrix (Fin k) (Fin k) K)
    (hk : kOf i = k) (hc : MinCtx i n k Mm (f2orgOf i)) :
    ∃ tF, (cauchy i).1 = clip (vsub i.x (smul tF i.g)) i.lb i.ub ∧
      phi i n k Mm tF ≤ phi i n k Mm 0 := by
  obtain ⟨tF, h, hp, -, -⟩ := cauchy_first_local_min i n k Mm hk hc
  refine ⟨tF, hp, ?_⟩
  rcases lt_or_eq_of_le h.nonneg with h0 | h0
  · exact le_of_lt (h.dec 0 tF (le_refl _) h0 (le_refl _))
  · rw [← h0]

/-- **C08 (strict decrease)** when the projected steepest-descent direction is not zero (some
variable can move), the Cauchy step is positive and the model value at the Cauchy point is
STRICTLY below the one at `x` -/
theorem gcp_model_lt (i : CauchyIn K) (n k : Nat) (Mm : Matrix (Fin k) (Fin k) K)
    (hk : kOf i = k) (hc : MinCtx i n k Mm (f2orgOf i))
    (hne : vec n (cauchyD0 (breakpoints i.x i.g i.lb i.ub) i.g) ≠ 0) :
    ∃ tF, 0 < tF ∧ (cauchy i).1 = clip (vsub i.x (smul tF i.g)) i.lb i.ub ∧
      phi i n k Mm tF < phi i n k Mm 0 := by
  obtain ⟨tF, h, hp, -, hpos⟩ := cauchy_first_local_min i n k Mm hk hc
  exact ⟨tF, hpos hne, hp, h.dec 0 tF (le_refl _) (hpos hne) (le_refl _)⟩

/-- at `t = 0` the path is at `x` and the model value is `0` -/
theorem phi_zero (i : CauchyIn K) (n k : Nat) (Mm : Matrix (Fin k) (Fin k) K)
    (hx : InBoxF i.lb i.ub i.x) (hg : i.g.length = i.x.length) : phi i n k Mm 0 = 0 := by
  have h0 : pathAt i 0 = i.x := by
    unfold pathAt
    have : vsub i.x (smul 0 i.g) = i.x := by
      apply ext_getD (0 : K)
      · simp only [vsub, smul, vzip_length', List.length_map, hg, Nat.min_self]
      · intro j hj
        have hj' : j < i.x.length := by
          simpa only [vsub, smul, vzip_length', List.length_map, hg, Nat.min_self] using hj
        simp only [vsub, smul]
        rw [getD_vzip _ _ _ _ j hj' (by simp [hg, hj']), getD_map _ _ _ j (by rw [hg]; exact hj')]
        ring
    rw [this]
    exact clip_of_inBox (C11.inBox_of_inBoxF hx)
  unfold phi qmodel
  rw [h0, sub_self]
  simp

/-- **C08 (strict decrease, model form)** … i.e. `m(x_cp − x) < 0 = m(0)`: the hypothesis under
which C09 `direction_descent` makes the search direction a descent direction -/
theorem gcp_model_neg (i : CauchyIn K) (n k : Nat) (Mm : Matrix (Fin k) (Fin k) K)
    (hk : kOf i = k) (hc : MinCtx i n k Mm (f2orgOf i))
    (hne : vec n (cauchyD0 (breakpoints i.x i.g i.lb i.ub) i.g) ≠ 0) :
    qmodel (vec n i.g) (bmat i.theta (wmat n k i.W) Mm) (vec n (cauchy i).1 - vec n i.x) < 0 := by
  obtain ⟨tF, -, hp, hlt⟩ := gcp_model_lt i n k Mm hk hc hne
  have hg : i.g.length = i.x.length := by rw [hc.q.hg, hc.q.hx]
  rw [phi_zero i n k Mm hc.box hg] at hlt
  rw [hp]
  exact hlt

/-- **C08 (no stored pair)** in the first iteration and after a memory reset (`use_factor = False`:
the middle-matrix product is skipped, `B = θI`) the hypotheses about the middle matrix and positive
definiteness hold by themselves for `θ > 0`. -/
theorem minCtx_nopairs (i : CauchyIn K) (n k : Nat) (hx : i.x.length = n) (hg : i.g.length = n)
    (hW : i.W.length = n) (hrow : ∀ r, r < n → (i.W.getD r []).length = k) (huf : i.useFactor = false)
    (hθ : 0 < i.theta) (hbox : InBoxF i.lb i.ub i.x) (f2org : K)
    (hfloor : ∀ dd : Fin n → K, dd ≠ 0 →
      (∀ r, dd r = 0 ∨ dd r = vec n (cauchyD0 (breakpoints i.x i.g i.lb i.ub) i.g) r) →
      i.epsFsec * f2org ≤ i.theta * (dd ⬝ᵥ dd)) :
    MinCtx i n k (0 : Matrix (Fin k) (Fin k) K) f2org := by
  have hB : ∀ a : Fin n → K, a ⬝ᵥ (bmat i.theta (wmat n k i.W) (0 : Matrix (Fin k) (Fin k) K) *ᵥ a) =
      i.theta * (a ⬝ᵥ a) := by
    intro a
    rw [bmat_mulVec, zero_mulVec, mulVec_zero, sub_zero, dotProduct_smul, smul_eq_mul]
  refine ⟨⟨hx, hg, hW, hrow, by simp, ?_⟩, hbox, ?_, ?_⟩
  · intro v hv
    have : i.mv v = v.map fun _ => (0 : K) := by
      unfold CauchyIn.mv; rw [if_neg (by rw [huf]; simp)]
    rw [this]
    exact ⟨by rw [List.length_map]; exact hv, by rw [vec_zeros, zero_mulVec]⟩
  · intro a ha
    rw [hB]
    exact mul_pos hθ (dot_self_pos a ha)
  · intro dd hne hpat
    rw [hB]
    exact hfloor dd hne hpat

/-- the middle matrix `M` is symmetric as soon as the matrix it inverts is — and that one,
`[[−D, Lᵀ], [L, θ SᵀS]]`, is symmetric by construction -/
theorem middle_symm {k : Nat} (Mm Minvm : Matrix (Fin k) (Fin k) K) (hM : Mm * Minvm = 1)
    (hs : Minvmᵀ = Minvm) : Mmᵀ = Mm := by
  have h3 : Minvm * Mmᵀ = 1 := by
    have := congrArg Matrix.transpose hM
    rw [Matrix.transpose_mul, Matrix.transpose_one, hs] at this
    exact this
  calc Mmᵀ = (Mm * Minvm) * Mmᵀ := by rw [hM, Matrix.one_mul]
    _ = Mm * (Minvm * Mmᵀ) := by rw [Matrix.mul_assoc]
    _ = Mm := by rw [h3, Matrix.mul_one]

end Lbfgsb.C08

/-! ### Non-vacuity (over ℚ): x = (0,0), g = (−1, 2), box [−1,1]², B = 4·I (no pairs).
`φ(t) = −5t + 10t²` until the first breakpoint `t = 1/2`; the minimiser `t* = 1/4` lies inside the
first segment: the Cauchy point is `(1/4, −1/2)`. -/
namespace Lbfgsb.C08
open Lbfgsb Matrix
section nonvacuous

def exIn : CauchyIn ℚ :=
  { x := [0, 0], g := [-1, 2], lb := [-1, -1], ub := [1, 1], theta := 4, W := [ [], [] ], Minv := [],
    useFactor := false, epsFsec := 1 / 10 ^ 30 }

theorem ex_f2org : f2orgOf exIn = 20 := by decide +kernel
theorem ex_d0 : cauchyD0 (breakpoints exIn.x exIn.g exIn.lb exIn.ub) exIn.g = [1, -2] := by decide +kernel

theorem ex_bmat (a : Fin 2 → ℚ) : bmat exIn.theta (wmat 2 0 exIn.W) (0 : Matrix (Fin 0) (Fin 0) ℚ) *ᵥ a = (4 : ℚ) • a := by
  rw [bmat_mulVec]
  have : wmat 2 0 exIn.W *ᵥ ((0 : Matrix (Fin 0) (Fin 0) ℚ) *ᵥ ((wmat 2 0 exIn.W)ᵀ *ᵥ a)) = 0 := by
    funext r; simp [mulVec, dotProduct]
  rw [this, sub_zero]
  rfl

theorem ex_quad (a : Fin 2 → ℚ) :
    a ⬝ᵥ (bmat exIn.theta (wmat 2 0 exIn.W) (0 : Matrix (Fin 0) (Fin 0) ℚ) *ᵥ a) = 4 * (a 0 * a 0 + a 1 * a 1) := by
  rw [ex_bmat]
  simp [dotProduct, Fin.sum_univ_two]
  ring

theorem ex_ctx : MinCtx exIn 2 0 (0 : Matrix (Fin 0) (Fin 0) ℚ) (f2orgOf exIn) where
  q := {
    hx := rfl
    hg := rfl
    hW := rfl
    hrow := by
      intro r hr
      match r, hr with
      | 0, _ => rfl
      | 1, _ => rfl
    hsym := by simp
    hmv := by
      intro v hv
      have : v = [] := List.length_eq_zero_iff.1 hv
      subst this
      exact ⟨rfl, by funext r; exact r.elim0⟩ }
  box := by simp [exIn, InBoxF]
  pd := by
    intro a ha
    rw [ex_quad]
    have : a 0 ≠ 0 ∨ a 1 ≠ 0 := by
      by_contra hcon
      push Not at hcon
      apply ha
      funext r
      fin_cases r
      · exact hcon.1
      · exact hcon.2
    rcases this with h | h
    · have := mul_self_pos.2 h
      have := mul_self_nonneg (a 1)
      linarith
    · have := mul_self_pos.2 h
      have := mul_self_nonneg (a 0)
      linarith
  floor := by
    intro dd hne hpat
    rw [ex_quad, ex_f2org]
    have h0 := hpat 0
    have h1 := hpat 1
    have e0 : vec 2 ([1, -2] : List ℚ) 0 = 1 := rfl
    have e1 : vec 2 ([1, -2] : List ℚ) 1 = -2 := rfl
    rw [ex_d0, e0] at h0
    rw [ex_d0, e1] at h1
    have : dd 0 ≠ 0 ∨ dd 1 ≠ 0 := by
      by_contra hcon
      push Not at hcon
      apply hne
      funext r
      fin_cases r
      · exact hcon.1
      · exact hcon.2
    have heps : exIn.epsFsec * 20 ≤ 1 := by simp [exIn]; norm_num
    rcases this with h | h
    · have h0' : dd 0 = 1 := h0.resolve_left h
      have := mul_self_nonneg (dd 1)
      rw [h0']; linarith
    · have h1' : dd 1 = -2 := h1.resolve_left h
      have := mul_self_nonneg (dd 0)
      rw [h1']; linarith

/-- the theorem applies to this instance -/
example : ∃ tF, 0 ≤ tF ∧ (cauchy exIn).1 = clip (vsub exIn.x (smul tF exIn.g)) exIn.lb exIn.ub :=
  let ⟨tF, h0, _, _, hp, _⟩ := gcp_first_local_min exIn 2 0 0 rfl ex_ctx
  ⟨tF, h0, hp⟩

end nonvacuous
end Lbfgsb.C08
