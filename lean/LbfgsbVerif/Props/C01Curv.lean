/-
  C01 — descent at every non-stationary iterate of the COMPLETE model, from the curvature of the stored pairs.

  `complete_iteration_descent_curv`: the memory snapshot `(X, G)` holds at least one pair; its differences have the
  length of `x`, `s ≠ 0` and `sᵀy > 0` for every pair (what `updateMats` / the history filter guarantee: C10 / C13 / C18
  invariants), `θ > 0`; `x` is feasible and not stationary; the Fortran floor on `f''` is inactive. Then the direction
  `x̄ − x` computed by the composed kernel models (`xbarModel = subspaceMin ∘ cauchy` on the matrices `buildW`, `buildMinv`)
  satisfies `gᵀ(x̄ − x) < 0`. No hypothesis on any solve, on the middle matrix or on positive definiteness is left:
    * the middle matrix is invertible and `θI − W M Wᵀ` is the BFGS matrix of the pairs, positive definite
      (`C10.kernel_matrix_is_bfgs`, `kernel_minv_invertible`);
    * the dense solves of the model are exact (Props/C09Solve);
    * `c = Wᵀ(x_cp − x)` is what the Cauchy step returns (C08 `gcp_first_local_min`).
-/
import LbfgsbVerif.Props.C10Kernel
import LbfgsbVerif.Props.C18
import Mathlib.LinearAlgebra.Matrix.NonsingularInverse

set_option linter.unusedSectionVars false

namespace Lbfgsb.C01
open Lbfgsb Matrix CompactKernel CompactBridge CompactBfgs Lbfgsb.Gauss
variable {K : Type} [Field K] [LinearOrder K] [IsStrictOrderedRing K]

/-- the auxiliary vector has the size of the memory basis -/
theorem cauchy_c_length (i : CauchyIn K) (n k : Nat) (Mm : Matrix (Fin k) (Fin k) K)
    (hk : kOf i = k) (hc : MinCtx i n k Mm (f2orgOf i)) : (cauchy i).2.length = k := by
  have hinit := init_cinv i n k Mm (f2orgOf i) hc hk
  rw [cauchy_eq]
  split
  · exact hinit.der.len_c
  · obtain ⟨P', hP'⟩ := fold_cinv i n k Mm (f2orgOf i) hc _ _ [] hinit (fun ib hib => by
        obtain ⟨h1, h2⟩ := (C08.order_positive _ ib).1 hib
        obtain ⟨hll, hul⟩ := inBoxF_lengths hc.box
        have hg : i.g.length = i.x.length := by rw [hc.q.hg, hc.q.hx]
        rw [C08.breakpoints_length _ _ _ _ hg hll hul, hc.q.hx] at h1
        exact ⟨h1, by simp, h2⟩) (C08.order_nodup _) (C08.order_sorted _)
    rw [cauchyFinish_eq]
    simp only [vadd, smul, vzip_length', List.length_map, hP'.der.len_c, hP'.der.len_p, Nat.min_self]

/-- **the middle matrix of positive-curvature pairs is invertible** -/
theorem kernel_minv_invertible (nn : Nat) (θ : K) (S Y : List (Vec K)) (hθ : 0 < θ) (h : S.length = Y.length)
    (hS : ∀ j, j < S.length → (S.getD j []).length = nn) (hY : ∀ j, j < S.length → (Y.getD j []).length = nn)
    (hcurv : ∀ j, j < S.length → vec nn (S.getD j []) ≠ 0 ∧ 0 < vec nn (S.getD j []) ⬝ᵥ vec nn (Y.getD j [])) :
    ∃ Mm : Matrix (Fin ((lOf nn S Y).length + (lOf nn S Y).length)) (Fin ((lOf nn S Y).length + (lOf nn S Y).length)) K,
      Mm * wmat ((lOf nn S Y).length + (lOf nn S Y).length) ((lOf nn S Y).length + (lOf nn S Y).length)
        (buildMinv θ S Y) = 1 := by
  have hp : ∀ p ∈ (pairsOf nn S Y).reverse, p.1 ≠ 0 ∧ 0 < p.1 ⬝ᵥ p.2 := by
    intro p hpm
    rw [List.mem_reverse] at hpm
    unfold pairsOf at hpm
    rw [List.mem_map] at hpm
    obtain ⟨q, hq, rfl⟩ := hpm
    obtain ⟨j, hj, hqj⟩ := List.mem_iff_getElem.mp hq
    have hjS : j < S.length := by rw [List.length_zip, ← h, Nat.min_self] at hj; exact hj
    have hjY : j < Y.length := by rw [← h]; exact hjS
    rw [List.getElem_zip] at hqj
    have e1 : S.getD j [] = S[j] := by rw [List.getD_eq_getElem?_getD, List.getElem?_eq_getElem hjS]; rfl
    have e2 : Y.getD j [] = Y[j] := by rw [List.getD_eq_getElem?_getD, List.getElem?_eq_getElem hjY]; rfl
    have := hcurv j hjS
    rw [e1, e2] at this
    rw [← hqj]
    exact this
  have hnd := (C10.nonDeg_of_curvature θ hθ (lOf nn S Y) hp).1
  obtain ⟨hinv, -, -⟩ := CompactBfgs.compact_eq_bfgs θ (lOf nn S Y) hnd
  have hinv' : Ninvl θ (lOf nn S Y) * Nl θ (lOf nn S Y) = 1 := mul_eq_one_comm.mp hinv
  have hee : (descEquiv (K := K) (lOf nn S Y)) ∘ (descEquiv (K := K) (lOf nn S Y)).symm = id := by
    funext x; simp
  have hNb : Compact.N (Smat (lOf nn S Y)) (Ymat (lOf nn S Y)) θ =
      (Nl θ (lOf nn S Y)).submatrix (descEquiv (lOf nn S Y)).symm (descEquiv (lOf nn S Y)).symm := by
    rw [Nl_submatrix θ (lOf nn S Y), submatrix_submatrix, hee]
    rfl
  have hNk : wmat ((lOf nn S Y).length + (lOf nn S Y).length) ((lOf nn S Y).length + (lOf nn S Y).length)
      (buildMinv θ S Y) =
      (Compact.N (Smat (lOf nn S Y)) (Ymat (lOf nn S Y)) θ).submatrix finSumFinEquiv.symm finSumFinEquiv.symm := by
    funext a b
    rw [submatrix_apply, ← buildMinv_block nn θ S Y h hS hY]
    simp
  refine ⟨((Ninvl θ (lOf nn S Y)).submatrix (descEquiv (lOf nn S Y)).symm (descEquiv (lOf nn S Y)).symm).submatrix
    finSumFinEquiv.symm finSumFinEquiv.symm, ?_⟩
  rw [hNk, hNb, submatrix_mul_equiv, submatrix_mul_equiv, hinv', submatrix_one_equiv, submatrix_one_equiv]

/-- the context of the Cauchy theorems holds for a kernel input built from positive-curvature pairs: there is an inverse `Mm` of
the middle matrix, and `MinCtx` holds with it -/
theorem kernel_minCtx (lb ub : Vec K) (e : K) (x g : Vec K) (X G : List (Vec K))
    (hX : X.length > 1) (hXG : X.length = G.length) (hn : 0 < x.length)
    (hS : ∀ j, j < (diffs X).length → ((diffs X).getD j []).length = x.length)
    (hY : ∀ j, j < (diffs X).length → ((diffs G).getD j []).length = x.length)
    (hcurv : ∀ j, j < (diffs X).length → vec x.length ((diffs X).getD j []) ≠ 0 ∧
      0 < vec x.length ((diffs X).getD j []) ⬝ᵥ vec x.length ((diffs G).getD j []))
    (hθ : 0 < thetaOf X G) (box : InBoxF lb ub x)
    (floor : ∀ dd : Fin x.length → K, dd ≠ 0 →
      (∀ r, dd r = 0 ∨ dd r = vec x.length (cauchyD0 (breakpoints x (fitTo x g) lb ub) (fitTo x g)) r) →
      e * f2orgOf (kernelInput x g lb ub (some (X, G)) e) ≤
        dd ⬝ᵥ (C10.bfgsChain ((thetaOf X G) • (1 : Matrix (Fin x.length) (Fin x.length) K))
          (pairsOf x.length (diffs X) (diffs G)) *ᵥ dd)) :
    ∃ Mm : Matrix (Fin ((lOf x.length (diffs X) (diffs G)).length + (lOf x.length (diffs X) (diffs G)).length))
        (Fin ((lOf x.length (diffs X) (diffs G)).length + (lOf x.length (diffs X) (diffs G)).length)) K,
      kOf (kernelInput x g lb ub (some (X, G)) e) =
        (lOf x.length (diffs X) (diffs G)).length + (lOf x.length (diffs X) (diffs G)).length ∧
      MinCtx (kernelInput x g lb ub (some (X, G)) e) x.length _ Mm (f2orgOf (kernelInput x g lb ub (some (X, G)) e)) := by
  have hi : kernelInput x g lb ub (some (X, G)) e =
      { x, g := fitTo x g, lb, ub, theta := thetaOf X G, W := buildW x.length (thetaOf X G) (diffs X) (diffs G),
        Minv := buildMinv (thetaOf X G) (diffs X) (diffs G), useFactor := true, epsFsec := e } := by
    simp only [kernelInput, hX, if_true]
  have hSY : (diffs X).length = (diffs G).length := by rw [diffs_length, diffs_length, hXG]
  have hm := lOf_length x.length (diffs X) (diffs G) hSY
  obtain ⟨Mm, hM⟩ := kernel_minv_invertible x.length (thetaOf X G) (diffs X) (diffs G) hθ hSY hS hY hcurv
  obtain ⟨hB, hspd⟩ := C10.kernel_matrix_is_bfgs x.length (thetaOf X G) (diffs X) (diffs G) hθ hSY hS hY hcurv Mm hM
  -- sizes of the kernel input
  obtain ⟨sW, srow, sk, -, -, -⟩ := kernelInput_sizes x g lb ub X G e hX hXG hn
  have hkk : 2 * (X.length - 1) = (lOf x.length (diffs X) (diffs G)).length + (lOf x.length (diffs X) (diffs G)).length := by
    rw [hm, diffs_length]; omega
  have hg : (fitTo x g).length = x.length := fitTo_length x g
  rw [hi] at sW srow sk
  have hsym : (wmat ((lOf x.length (diffs X) (diffs G)).length + (lOf x.length (diffs X) (diffs G)).length)
      ((lOf x.length (diffs X) (diffs G)).length + (lOf x.length (diffs X) (diffs G)).length)
      (buildMinv (thetaOf X G) (diffs X) (diffs G)))ᵀ =
      wmat _ _ (buildMinv (thetaOf X G) (diffs X) (diffs G)) := by
    funext a b
    simp only [transpose_apply, wmat]
    exact buildMinv_symm _ _ _ b a (by have := b.2; omega) (by have := a.2; omega)
  have hMl : (buildMinv (thetaOf X G) (diffs X) (diffs G)).length =
      (lOf x.length (diffs X) (diffs G)).length + (lOf x.length (diffs X) (diffs G)).length := by
    rw [C10.buildMinv_length, hm]
  have hMrow : ∀ r, r < (lOf x.length (diffs X) (diffs G)).length + (lOf x.length (diffs X) (diffs G)).length →
      ((buildMinv (thetaOf X G) (diffs X) (diffs G)).getD r []).length =
        (lOf x.length (diffs X) (diffs G)).length + (lOf x.length (diffs X) (diffs G)).length := by
    intro r hr
    rw [hm]
    apply C10.buildMinv_rows
    rw [List.getD_eq_getElem?_getD, List.getElem?_eq_getElem (by rw [C10.buildMinv_length, ← hm]; exact hr)]
    exact List.getElem_mem _
  -- the context of the Cauchy theorems
  have hq : QCtx (kernelInput x g lb ub (some (X, G)) e) x.length _ Mm := by
    rw [hi]
    exact C09.qctx_of_pivots _ x.length _ Mm rfl hg sW (fun r hr => by rw [srow r hr, hkk]) rfl hMl hMrow hM hsym
  have hpd : ∀ a : Fin x.length → K, a ≠ 0 →
      0 < a ⬝ᵥ (bmat (thetaOf X G) (wmat x.length _ (buildW x.length (thetaOf X G) (diffs X) (diffs G))) Mm *ᵥ a) := by
    intro a ha; rw [hB]; exact hspd.2 a ha
  have hmin : MinCtx (kernelInput x g lb ub (some (X, G)) e) x.length _ Mm (f2orgOf (kernelInput x g lb ub (some (X, G)) e)) := by
    refine ⟨hq, ?_, ?_, ?_⟩
    · rw [hi]; exact box
    · rw [hi]; exact hpd
    · intro dd hne hpat
      have := floor dd hne (by rw [hi] at hpat; exact hpat)
      rw [hi]
      show e * _ ≤ dd ⬝ᵥ (bmat (thetaOf X G) _ Mm *ᵥ dd)
      rw [hB]
      rw [hi] at this
      exact this
  have hk : kOf (kernelInput x g lb ub (some (X, G)) e) =
      (lOf x.length (diffs X) (diffs G)).length + (lOf x.length (diffs X) (diffs G)).length := by
    rw [hi, sk, hkk]
  exact ⟨Mm, hk, hmin⟩

/-- **C08 (first local minimiser, from the curvature of the stored pairs)** for the kernel input the driver builds from a
memory snapshot with at least one pair: feasibility, positive curvature of the stored pairs, `θ > 0` and an inactive floor are
the only hypotheses. `φ` is taken with the inverse `Mm` of the middle matrix, i.e. with `B` = the BFGS matrix of the pairs. -/
theorem gcp_first_local_min_curv (lb ub : Vec K) (e : K) (x g : Vec K) (X G : List (Vec K))
    (hX : X.length > 1) (hXG : X.length = G.length) (hn : 0 < x.length)
    (hS : ∀ j, j < (diffs X).length → ((diffs X).getD j []).length = x.length)
    (hY : ∀ j, j < (diffs X).length → ((diffs G).getD j []).length = x.length)
    (hcurv : ∀ j, j < (diffs X).length → vec x.length ((diffs X).getD j []) ≠ 0 ∧
      0 < vec x.length ((diffs X).getD j []) ⬝ᵥ vec x.length ((diffs G).getD j []))
    (hθ : 0 < thetaOf X G) (box : InBoxF lb ub x)
    (floor : ∀ dd : Fin x.length → K, dd ≠ 0 →
      (∀ r, dd r = 0 ∨ dd r = vec x.length (cauchyD0 (breakpoints x (fitTo x g) lb ub) (fitTo x g)) r) →
      e * f2orgOf (kernelInput x g lb ub (some (X, G)) e) ≤
        dd ⬝ᵥ (C10.bfgsChain ((thetaOf X G) • (1 : Matrix (Fin x.length) (Fin x.length) K))
          (pairsOf x.length (diffs X) (diffs G)) *ᵥ dd)) :
    ∃ (Mm : Matrix (Fin ((lOf x.length (diffs X) (diffs G)).length + (lOf x.length (diffs X) (diffs G)).length))
        (Fin ((lOf x.length (diffs X) (diffs G)).length + (lOf x.length (diffs X) (diffs G)).length)) K) (tF : K), 0 ≤ tF ∧
      (∀ p q, 0 ≤ p → p < q → q ≤ tF →
        phi (kernelInput x g lb ub (some (X, G)) e) x.length _ Mm q < phi (kernelInput x g lb ub (some (X, G)) e) x.length _ Mm p) ∧
      (∃ δ, 0 < δ ∧ ∀ τ, tF ≤ τ → τ ≤ tF + δ →
        phi (kernelInput x g lb ub (some (X, G)) e) x.length _ Mm tF ≤ phi (kernelInput x g lb ub (some (X, G)) e) x.length _ Mm τ) ∧
      (cauchy (kernelInput x g lb ub (some (X, G)) e)).1 = clip (vsub x (smul tF (fitTo x g))) lb ub := by
  obtain ⟨Mm, hk, hmin⟩ := kernel_minCtx lb ub e x g X G hX hXG hn hS hY hcurv hθ box floor
  obtain ⟨tF, h0, hdec, hright, hcp, -⟩ := C08.gcp_first_local_min _ x.length _ Mm hk hmin
  refine ⟨Mm, tF, h0, hdec, hright, ?_⟩
  rw [hcp]
  simp only [kernelInput, hX, if_true]

/-- **C01 (descent for the complete model, from the curvature of the stored pairs)** -/
theorem complete_iteration_descent_curv (lb ub : Vec K) (e : K) (x g : Vec K) (X G : List (Vec K))
    (hX : X.length > 1) (hXG : X.length = G.length) (hn : 0 < x.length)
    (hS : ∀ j, j < (diffs X).length → ((diffs X).getD j []).length = x.length)
    (hY : ∀ j, j < (diffs X).length → ((diffs G).getD j []).length = x.length)
    (hcurv : ∀ j, j < (diffs X).length → vec x.length ((diffs X).getD j []) ≠ 0 ∧
      0 < vec x.length ((diffs X).getD j []) ⬝ᵥ vec x.length ((diffs G).getD j []))
    (hθ : 0 < thetaOf X G) (box : InBoxF lb ub x)
    (floor : ∀ dd : Fin x.length → K, dd ≠ 0 →
      (∀ r, dd r = 0 ∨ dd r = vec x.length (cauchyD0 (breakpoints x (fitTo x g) lb ub) (fitTo x g)) r) →
      e * f2orgOf (kernelInput x g lb ub (some (X, G)) e) ≤
        dd ⬝ᵥ (C10.bfgsChain ((thetaOf X G) • (1 : Matrix (Fin x.length) (Fin x.length) K))
          (pairsOf x.length (diffs X) (diffs G)) *ᵥ dd))
    (hns : projgr x (fitTo x g) lb ub ≠ 0) :
    vec x.length (fitTo x g) ⬝ᵥ (vec x.length (xbarModel lb ub e x g (some (X, G))) - vec x.length x) < 0 := by
  have hi : kernelInput x g lb ub (some (X, G)) e =
      { x, g := fitTo x g, lb, ub, theta := thetaOf X G, W := buildW x.length (thetaOf X G) (diffs X) (diffs G),
        Minv := buildMinv (thetaOf X G) (diffs X) (diffs G), useFactor := true, epsFsec := e } := by
    simp only [kernelInput, hX, if_true]
  have hSY : (diffs X).length = (diffs G).length := by rw [diffs_length, diffs_length, hXG]
  have hm := lOf_length x.length (diffs X) (diffs G) hSY
  obtain ⟨Mm, hM⟩ := kernel_minv_invertible x.length (thetaOf X G) (diffs X) (diffs G) hθ hSY hS hY hcurv
  obtain ⟨hB, hspd⟩ := C10.kernel_matrix_is_bfgs x.length (thetaOf X G) (diffs X) (diffs G) hθ hSY hS hY hcurv Mm hM
  -- sizes of the kernel input
  obtain ⟨sW, srow, sk, -, -, -⟩ := kernelInput_sizes x g lb ub X G e hX hXG hn
  have hkk : 2 * (X.length - 1) = (lOf x.length (diffs X) (diffs G)).length + (lOf x.length (diffs X) (diffs G)).length := by
    rw [hm, diffs_length]; omega
  have hg : (fitTo x g).length = x.length := fitTo_length x g
  rw [hi] at sW srow sk
  have hsym : (wmat ((lOf x.length (diffs X) (diffs G)).length + (lOf x.length (diffs X) (diffs G)).length)
      ((lOf x.length (diffs X) (diffs G)).length + (lOf x.length (diffs X) (diffs G)).length)
      (buildMinv (thetaOf X G) (diffs X) (diffs G)))ᵀ =
      wmat _ _ (buildMinv (thetaOf X G) (diffs X) (diffs G)) := by
    funext a b
    simp only [transpose_apply, wmat]
    exact buildMinv_symm _ _ _ b a (by have := b.2; omega) (by have := a.2; omega)
  have hMl : (buildMinv (thetaOf X G) (diffs X) (diffs G)).length =
      (lOf x.length (diffs X) (diffs G)).length + (lOf x.length (diffs X) (diffs G)).length := by
    rw [C10.buildMinv_length, hm]
  have hMrow : ∀ r, r < (lOf x.length (diffs X) (diffs G)).length + (lOf x.length (diffs X) (diffs G)).length →
      ((buildMinv (thetaOf X G) (diffs X) (diffs G)).getD r []).length =
        (lOf x.length (diffs X) (diffs G)).length + (lOf x.length (diffs X) (diffs G)).length := by
    intro r hr
    rw [hm]
    apply C10.buildMinv_rows
    rw [List.getD_eq_getElem?_getD, List.getElem?_eq_getElem (by rw [C10.buildMinv_length, ← hm]; exact hr)]
    exact List.getElem_mem _
  -- the context of the Cauchy theorems
  have hq : QCtx (kernelInput x g lb ub (some (X, G)) e) x.length _ Mm := by
    rw [hi]
    exact C09.qctx_of_pivots _ x.length _ Mm rfl hg sW (fun r hr => by rw [srow r hr, hkk]) rfl hMl hMrow hM hsym
  have hpd : ∀ a : Fin x.length → K, a ≠ 0 →
      0 < a ⬝ᵥ (bmat (thetaOf X G) (wmat x.length _ (buildW x.length (thetaOf X G) (diffs X) (diffs G))) Mm *ᵥ a) := by
    intro a ha; rw [hB]; exact hspd.2 a ha
  have hmin : MinCtx (kernelInput x g lb ub (some (X, G)) e) x.length _ Mm (f2orgOf (kernelInput x g lb ub (some (X, G)) e)) := by
    refine ⟨hq, ?_, ?_, ?_⟩
    · rw [hi]; exact box
    · rw [hi]; exact hpd
    · intro dd hne hpat
      have := floor dd hne (by rw [hi] at hpat; exact hpat)
      rw [hi]
      show e * _ ≤ dd ⬝ᵥ (bmat (thetaOf X G) _ Mm *ᵥ dd)
      rw [hB]
      rw [hi] at this
      exact this
  have hk : kOf (kernelInput x g lb ub (some (X, G)) e) =
      (lOf x.length (diffs X) (diffs G)).length + (lOf x.length (diffs X) (diffs G)).length := by
    rw [hi, sk, hkk]
  -- the Cauchy step and the context of the subspace theorems
  obtain ⟨tF, -, -, -, hcp, hcv⟩ := C08.gcp_first_local_min _ x.length _ Mm hk hmin
  have hcl := cauchy_c_length _ x.length _ Mm hk hmin
  have hboxc : InBoxF lb ub (cauchy (kernelInput x g lb ub (some (X, G)) e)).1 := by
    have hbx := C11.inBox_of_inBoxF box
    have := C08.gcp_in_box (kernelInput x g lb ub (some (X, G)) e) (by rw [hi]; exact boxOk_of_inBox hbx)
      (by rw [hi]; exact hbx) (by rw [hi]; exact hg)
    rw [hi] at this ⊢
    exact inBoxF_of_inBox this
  have hxcl : (cauchy (kernelInput x g lb ub (some (X, G)) e)).1.length = x.length := by
    have := (inBoxF_lengths hboxc).1
    rw [← this, (inBoxF_lengths box).1]
  have hsub : SubCtxP (subInOf (kernelInput x g lb ub (some (X, G)) e)) x.length _ Mm := by
    apply SubCtxP.of_pd
    · show (kernelInput x g lb ub (some (X, G)) e).x.length = x.length
      rw [hi]
    · show (kernelInput x g lb ub (some (X, G)) e).g.length = x.length
      rw [hi]; exact hg
    · exact hxcl
    · show (kernelInput x g lb ub (some (X, G)) e).W.length = x.length
      rw [hi]; exact sW
    · intro r hr
      show ((kernelInput x g lb ub (some (X, G)) e).W.getD r []).length = _
      rw [hi]; rw [srow r hr, hkk]
    · exact hcl
    · show InBoxF (kernelInput x g lb ub (some (X, G)) e).lb (kernelInput x g lb ub (some (X, G)) e).ub _
      rw [hi] at hboxc ⊢
      exact hboxc
    · show (kernelInput x g lb ub (some (X, G)) e).theta ≠ 0
      rw [hi]; exact ne_of_gt hθ
    · show (kernelInput x g lb ub (some (X, G)) e).useFactor = true
      rw [hi]
    · show subK (subInOf (kernelInput x g lb ub (some (X, G)) e)) = _
      exact hk
    · show (kernelInput x g lb ub (some (X, G)) e).Minv.length = _
      rw [hi]; exact hMl
    · show ∀ r, r < _ → ((kernelInput x g lb ub (some (X, G)) e).Minv.getD r []).length = _
      rw [hi]; exact hMrow
    · show Mm * wmat _ _ (kernelInput x g lb ub (some (X, G)) e).Minv = 1
      rw [hi]; exact hM
    · show vec _ (cauchy (kernelInput x g lb ub (some (X, G)) e)).2 =
        (wmat x.length _ (kernelInput x g lb ub (some (X, G)) e).W)ᵀ *ᵥ
          (vec x.length (cauchy (kernelInput x g lb ub (some (X, G)) e)).1 - vec x.length (kernelInput x g lb ub (some (X, G)) e).x)
      rw [hcv, hcp]
    · show ∀ a : Fin x.length → K, a ≠ 0 → 0 < a ⬝ᵥ (bmat (kernelInput x g lb ub (some (X, G)) e).theta
        (wmat x.length _ (kernelInput x g lb ub (some (X, G)) e).W) Mm *ᵥ a)
      rw [hi]; exact hpd
  have := Lbfgsb.complete_iteration_descent lb ub e x g (some (X, G)) x.length _ Mm _ hk hmin
    (by rw [hi]; exact hns) hsub.toSubCtx
  rw [hi] at this
  exact this

/-- what the curvature invariant of the memory (C18 `pairs_curvature`, C13 `redefinition_pairs_curvature`: every
consecutive pair of the stored history passes the test `eps·yᵀy < sᵀy`, `eps ≥ 0`) gives for the stored differences -/
theorem curv_hyps_of_chain (n : Nat) (eps : K) (he : 0 ≤ eps) :
    ∀ (X G : List (Vec K)), X.length = G.length → AllLen n X → AllLen n G → CurvChain eps X G →
      ∀ j, j < (diffs X).length →
        ((diffs X).getD j []).length = n ∧ ((diffs G).getD j []).length = n ∧
        vec n ((diffs X).getD j []) ≠ 0 ∧
        0 < vec n ((diffs X).getD j []) ⬝ᵥ vec n ((diffs G).getD j []) ∧
        0 < vec n ((diffs G).getD j []) ⬝ᵥ vec n ((diffs G).getD j []) := by
  intro X
  induction X with
  | nil => intro G _ _ _ _ j hj; simp [diffs] at hj
  | cons x1 t ih =>
    intro G hl hX hG hc j hj
    cases t with
    | nil => simp [diffs] at hj
    | cons x2 xs =>
      cases G with
      | nil => simp at hl
      | cons g1 G' =>
        cases G' with
        | nil => simp at hl
        | cons g2 gs =>
          simp only [CurvChain] at hc
          obtain ⟨hk, hrest⟩ := hc
          have hx1 : x1.length = n := hX x1 (by simp)
          have hx2 : x2.length = n := hX x2 (by simp)
          have hg1 : g1.length = n := hG g1 (by simp)
          have hg2 : g2.length = n := hG g2 (by simp)
          cases j with
          | zero =>
            simp only [diffs, List.getD_cons_zero]
            have hsl : (vsub x2 x1).length = n := by simp [vsub, vzip_length', hx1, hx2]
            have hyl : (vsub g2 g1).length = n := by simp [vsub, vzip_length', hg1, hg2]
            unfold curvOk at hk
            simp only [decide_eq_true_eq] at hk
            rw [dot_vec n _ _ hyl hyl, dot_vec n _ _ hsl hyl] at hk
            have hpos := C18.curv_pos eps he _ _ hk
            have hyy : 0 ≤ vec n (vsub g2 g1) ⬝ᵥ vec n (vsub g2 g1) := by
              simp only [dotProduct]; exact Finset.sum_nonneg (fun i _ => mul_self_nonneg _)
            refine ⟨hsl, hyl, ?_, hpos, ?_⟩
            · intro h0; rw [h0] at hpos; simp at hpos
            · rcases lt_or_eq_of_le hyy with h1 | h1
              · exact h1
              · exfalso
                have hy0 : vec n (vsub g2 g1) = 0 := by
                  funext r
                  have := (Finset.sum_eq_zero_iff_of_nonneg (fun i _ => mul_self_nonneg (vec n (vsub g2 g1) i))).mp h1.symm r
                    (Finset.mem_univ r)
                  exact mul_self_eq_zero.mp this
                rw [hy0] at hpos; simp at hpos
          | succ j' =>
            simp only [diffs, List.getD_cons_succ]
            have hj' : j' < (diffs (x2 :: xs)).length := by simp [diffs] at hj; exact hj
            exact ih (g2 :: gs) (by simpa using hl) (fun v hv => hX v (List.mem_cons_of_mem _ hv))
              (fun v hv => hG v (List.mem_cons_of_mem _ hv)) hrest j' hj'

theorem getLast?_getD (l : List (Vec K)) (h : 0 < l.length) : l.getLast? = some (l.getD (l.length - 1) []) := by
  rw [List.getLast?_eq_getElem?, List.getD_eq_getElem?_getD, List.getElem?_eq_getElem (by omega)]
  rfl

/-- **C01 (descent from the invariants of the memory)** the same with the hypotheses on the stored pairs replaced by the
invariants the driver maintains: the history `(X, G)` (at least one pair) consists of vectors of the length of `x` and every
consecutive pair passed the curvature test with `eps ≥ 0` (`CurvChain`: C18 `pairs_curvature`). -/
theorem descent_from_memory_invariant (lb ub : Vec K) (e eps : K) (he : 0 ≤ eps) (x g : Vec K) (X G : List (Vec K))
    (hX : X.length > 1) (hXG : X.length = G.length) (hn : 0 < x.length)
    (hlX : AllLen x.length X) (hlG : AllLen x.length G) (hchain : CurvChain eps X G)
    (box : InBoxF lb ub x)
    (floor : ∀ dd : Fin x.length → K, dd ≠ 0 →
      (∀ r, dd r = 0 ∨ dd r = vec x.length (cauchyD0 (breakpoints x (fitTo x g) lb ub) (fitTo x g)) r) →
      e * f2orgOf (kernelInput x g lb ub (some (X, G)) e) ≤
        dd ⬝ᵥ (C10.bfgsChain ((thetaOf X G) • (1 : Matrix (Fin x.length) (Fin x.length) K))
          (pairsOf x.length (diffs X) (diffs G)) *ᵥ dd))
    (hns : projgr x (fitTo x g) lb ub ≠ 0) :
    vec x.length (fitTo x g) ⬝ᵥ (vec x.length (xbarModel lb ub e x g (some (X, G))) - vec x.length x) < 0 := by
  have hall := curv_hyps_of_chain x.length eps he X G hXG hlX hlG hchain
  have hdl : (diffs X).length = X.length - 1 := diffs_length X
  have hdg : (diffs G).length = X.length - 1 := by rw [diffs_length G, hXG]
  have hpos : 0 < (diffs X).length := by omega
  have hθ : 0 < thetaOf X G := by
    unfold thetaOf
    rw [getLast?_getD (diffs X) hpos, getLast?_getD (diffs G) (by omega)]
    simp only
    obtain ⟨hs, hy, -, h1, h2⟩ := hall ((diffs X).length - 1) (by omega)
    rw [hdg, ← hdl]
    rw [dot_vec x.length _ _ hy hy, dot_vec x.length _ _ hs hy]
    exact div_pos h2 h1
  exact complete_iteration_descent_curv lb ub e x g X G hX hXG hn (fun j hj => (hall j hj).1) (fun j hj => (hall j hj).2.1)
    (fun j hj => ⟨(hall j hj).2.2.1, (hall j hj).2.2.2.1⟩) hθ box floor hns

end Lbfgsb.C01

/-! ### Non-vacuity (ℚ): `f(x) = ½|x|²` on `[−2, 2]²`, history `(1,1) → (½,½)` (one pair, `s = y = (−½,−½)`, `θ = 1`), current
point `(½,½)` with gradient `(½,½)`, `eps = 0`, no floor (`e = 0`): every hypothesis of `descent_from_memory_invariant` holds. -/
namespace Lbfgsb.C01
open Lbfgsb Matrix CompactKernel
section nonvacuous

def cvX : List (Vec ℚ) := [[1, 1], [1 / 2, 1 / 2]]

theorem cv_diffs : diffs cvX = [[-1 / 2, -1 / 2]] := by decide +kernel
theorem cv_theta : thetaOf cvX cvX = 1 := by decide +kernel

example : vec 2 (fitTo ([1 / 2, 1 / 2] : Vec ℚ) [1 / 2, 1 / 2]) ⬝ᵥ
    (vec 2 (xbarModel [-2, -2] [2, 2] 0 [1 / 2, 1 / 2] [1 / 2, 1 / 2] (some (cvX, cvX))) - vec 2 [1 / 2, 1 / 2]) < 0 := by
  apply descent_from_memory_invariant [-2, -2] [2, 2] 0 0 (le_refl _) [1 / 2, 1 / 2] [1 / 2, 1 / 2] cvX cvX
    (by decide) rfl (by decide)
  · intro v hv; simp [cvX] at hv; rcases hv with rfl | rfl <;> rfl
  · intro v hv; simp [cvX] at hv; rcases hv with rfl | rfl <;> rfl
  · show curvOk _ _ _ _ _ = true ∧ True
    exact ⟨by decide +kernel, trivial⟩
  · simp [InBoxF]; norm_num
  · intro dd hne _
    rw [zero_mul]
    have hp : ∀ p ∈ pairsOf 2 (diffs cvX) (diffs cvX), p.1 ≠ 0 ∧ 0 < p.1 ⬝ᵥ p.2 := by
      intro p hp
      rw [cv_diffs] at hp
      simp only [pairsOf, List.zip_cons_cons, List.zip_nil_right, List.map_cons, List.map_nil, List.mem_singleton] at hp
      subst hp
      refine ⟨fun e => ?_, ?_⟩
      · have := congrFun e 0
        simp [vec] at this
      · simp [vec, dotProduct, Fin.sum_univ_two]
    have hspd := C10.bfgs_chain_posdef _ (C10.scaled_identity_spd (thetaOf cvX cvX) (by rw [cv_theta]; exact one_pos))
      (pairsOf 2 (diffs cvX) (diffs cvX)) hp
    exact le_of_lt (hspd.2 dd hne)
  · decide +kernel

end nonvacuous
end Lbfgsb.C01
