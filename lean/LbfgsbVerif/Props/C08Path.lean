/-
  C08 — path theorem (kept apart from Props/C08.lean, whose order theorems it uses).

  * `gcp_on_projected_path` (ordered field): for every memory (every `W`, `M⁻¹`, `theta`,
    every answer of the inner solves), every feasible `x`, every gradient and every box, the
    point the model `cauchy` returns is a point of the projected-gradient path:
    `x_cp = P(x − t g)` for some `t ≥ 0`. Proved through an invariant of the breakpoint loop
    (pinned variables sit on the bound they were heading to, with a breakpoint `≤ t_old`; the
    others are where they started, with their initial direction) — Proofs/CauchyPath.lean —
    and the order theorems of Props/C08.lean (breakpoints are passed in increasing order).
  Which `t` is chosen — the *first local minimiser* of the quadratic model along that path — is
  decided by the correspondence and the brute-force oracle.
-/
import LbfgsbVerif.Proofs.CauchyPath
import Mathlib.Algebra.Order.Field.Rat
import Mathlib.Tactic.NormNum

namespace Lbfgsb.C08
open Lbfgsb
variable {K : Type} [Field K] [LinearOrder K] [IsStrictOrderedRing K]

/-- **C08 (4)** the generalized Cauchy point lies on the projected path. -/
theorem gcp_on_projected_path (i : CauchyIn K) (hx : InBoxF i.lb i.ub i.x) (hg : i.g.length = i.x.length) :
    ∃ t, 0 ≤ t ∧ (cauchy i).1 = clip (vsub i.x (smul t i.g)) i.lb i.ub :=
  cauchy_on_path i hx hg

/-! ### Non-vacuity (ℚ, no memory): x = (0, 0) in [−1,1]×[−1,2], g = (−4, −1), theta = 1: the first
variable reaches its bound at t = 1/4, the minimiser along the second segment is at t = 1 -/
def iQ : CauchyIn ℚ :=
  { x := [0, 0], g := [-4, -1], lb := [-1, -1], ub := [1, 2], theta := 1, W := [ [], [] ],
    Minv := [], useFactor := false, epsFsec := 0 }

/-- the hypotheses are met by a concrete input, hence its Cauchy point is `P(x − t g)` for some `t ≥ 0`
(here `t = 1`: `P((0,0) + 1·(4,1)) = (1, 1)`; the merge sort inside `cauchy` does not reduce by `decide`) -/
example : ∃ t, 0 ≤ t ∧ (cauchy iQ).1 = clip (vsub iQ.x (smul t iQ.g)) iQ.lb iQ.ub :=
  gcp_on_projected_path iQ (by simp [iQ, InBoxF]) rfl
example : clip (vsub ([0, 0] : Vec ℚ) (smul 1 [-4, -1])) [-1, -1] [1, 2] = [1, 1] := by decide +kernel

end Lbfgsb.C08
