/-
  C10 — the compact representation IS the BFGS matrix of the stored pairs
  (Byrd–Nocedal–Schnabel, Theorem 2.3), kept apart from Props/C10.lean whose definitions it uses.

  For a list of pairs `(s_k, y_k)` (oldest first) and `θ`, let
      W = [ … θ s_k, y_k … ]            (one column `θ s_k` and one column `y_k` per pair)
      N = the symmetric matrix with     N(s_i, s_j) = θ s_iᵀs_j,
                                        N(y_j, s_i) = N(s_i, y_j) = s_iᵀy_j  for i newer than j, 0 otherwise,
                                        N(y_i, y_j) = −δ_ij s_iᵀy_i
  — i.e. `[[−D, Lᵀ], [L, θ SᵀS]]` of bfgsmats.py up to the order of the indices (`Nl`, built by
  bordering in Proofs/CompactBfgs.lean). Then, whenever no update of the chain is degenerate
  (`sᵀ B s ≠ 0`, `sᵀ y ≠ 0` — guaranteed by positive curvature and `bfgs_chain_posdef`),
      N is invertible, with the explicit inverse `Ninvl`, and
      θ I − W N⁻¹ Wᵀ  =  the matrix obtained by applying the BFGS update pair after pair to θ I.
  Any field. The exact-solve hypothesis of the other algebra theorems is discharged here: the
  inverse is constructed. What remains by correspondence only: that the triangular factorisation
  used by the code (`invMfactors`, `bmv`) solves with this `N` up to rounding.
-/
import LbfgsbVerif.Proofs.CompactBfgs

namespace Lbfgsb.C10
open Matrix CompactBfgs
variable {n : Type} [Fintype n] [DecidableEq n]
variable {K : Type} [Field K] [LinearOrder K] [IsStrictOrderedRing K]

theorem bfgsChain_rev (θ : K) (ps acc : List ((n → K) × (n → K))) :
    bfgsChain (bfgsRev θ acc) ps = bfgsRev θ (ps.reverse ++ acc) := by
  induction ps generalizing acc with
  | nil => rfl
  | cons p ps ih =>
    simp only [bfgsChain, List.reverse_cons, List.append_assoc, List.singleton_append]
    exact ih (p :: acc)

/-- **C10 (F6) — compact = dense.** -/
theorem compact_eq_bfgs (θ : K) (ps : List ((n → K) × (n → K))) (h : NonDeg θ ps.reverse) :
    Nl θ ps.reverse * Ninvl θ ps.reverse = 1 ∧
    θ • (1 : Matrix n n K) - Wl θ ps.reverse * Ninvl θ ps.reverse * (Wl θ ps.reverse)ᵀ =
      bfgsChain (θ • (1 : Matrix n n K)) ps := by
  obtain ⟨h1, -, h3⟩ := CompactBfgs.compact_eq_bfgs θ ps.reverse h
  refine ⟨h1, ?_⟩
  rw [h3]
  have := bfgsChain_rev θ ps []
  simpa [bfgsRev] using this.symm

/-- with positive curvature and `θ > 0` no update is degenerate -/
theorem nonDeg_of_curvature (θ : K) (hθ : 0 < θ) (l : List ((n → K) × (n → K)))
    (hp : ∀ p ∈ l, p.1 ≠ 0 ∧ 0 < p.1 ⬝ᵥ p.2) : NonDeg θ l ∧ SPD (bfgsRev θ l) := by
  induction l with
  | nil => exact ⟨trivial, scaled_identity_spd θ hθ⟩
  | cons p l ih =>
    obtain ⟨hnd, hspd⟩ := ih (fun q hq => hp q (List.mem_cons_of_mem _ hq))
    obtain ⟨hs, hsy⟩ := hp p (List.mem_cons_self ..)
    refine ⟨⟨ne_of_gt (hspd.2 p.1 hs), ne_of_gt hsy, hnd⟩, ?_⟩
    exact bfgs_posdef _ hspd p.1 p.2 hs hsy

/-- **C10 (F6') — for positive-curvature pairs** the hypothesis of `compact_eq_bfgs` holds: the
compact matrix of any list of pairs with `s ≠ 0`, `sᵀy > 0` and `θ > 0` is the dense BFGS matrix,
and is symmetric positive definite. -/
theorem compact_eq_bfgs_of_curvature (θ : K) (hθ : 0 < θ) (ps : List ((n → K) × (n → K)))
    (hp : ∀ p ∈ ps, p.1 ≠ 0 ∧ 0 < p.1 ⬝ᵥ p.2) :
    θ • (1 : Matrix n n K) - Wl θ ps.reverse * Ninvl θ ps.reverse * (Wl θ ps.reverse)ᵀ =
      bfgsChain (θ • (1 : Matrix n n K)) ps ∧
    SPD (bfgsChain (θ • (1 : Matrix n n K)) ps) := by
  have hnd := (nonDeg_of_curvature θ hθ ps.reverse (fun p hq => hp p (List.mem_reverse.1 hq))).1
  exact ⟨(compact_eq_bfgs θ ps hnd).2, bfgs_chain_posdef _ (scaled_identity_spd θ hθ) ps hp⟩

end Lbfgsb.C10
