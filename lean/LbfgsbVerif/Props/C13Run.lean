/-
  C13 — run-level theorems (kept apart from Props/C13.lean, whose filter theorems they use).

  * `identity_update_transparent`: a run whose update function returns its inputs unchanged
    returns the same result — same error, or equal `x, fun, jac`, counters, iteration count,
    message, success flag and correction pairs — as the run without an update function, for every
    objective, kernel, stepper, box, start, budget, callback, scaler and target (fresh run,
    `maxcor ≥ 1`). Proved by a simulation over the whole driver (Proofs/Identity.lean) under the
    memory invariant "consecutive stored pairs pass the curvature test and the matrices snapshot
    is the current history". One IEEE-exact law is used besides order-free reasoning: the
    curvature test does not depend on the order of its two points (`(a − b) = −(b − a)` and
    `(−p)(−q) = pq` exactly), stated as hypothesis `hsym`.
-/
import LbfgsbVerif.Proofs.Identity
import Mathlib.Data.Int.Order.Basic
import Mathlib.Tactic.Ring
import LbfgsbVerif.Props.C05

namespace Lbfgsb.C13
open Lbfgsb
variable {α ε δ : Type}
variable [Add α] [Sub α] [Mul α] [Div α] [Neg α] [LT α] [DecidableLT α] [OfNat α 0] [OfNat α 1] [FloatLike α]

/-- **C13 (0)** an update function that returns its inputs unchanged leaves the run unchanged. -/
theorem identity_update_transparent (u : User α ε) (o : Oracles α δ) (c : Cfg α)
    (hid : ∀ i : UpdIn α, u.update i = .ok ⟨i.f0, i.f0Old, i.grad, i.G⟩)
    (hck : c.checkpoint = none) (hmc : 1 ≤ c.maxcor)
    (hsym : ∀ x g x' g' : Vec α, curvOk x g x' g' c.epsSY = curvOk x' g' x g c.epsSY) :
    RelE (fun p q => p.1 = q.1) (minimize u o { c with hasUpdate := true })
      (minimize u o { c with hasUpdate := false }) :=
  minimize_identity u o hid c hck hsym hmc

/-! ### the symmetry hypothesis holds in every commutative ring (and in IEEE arithmetic) -/
section ring
variable {R : Type} [CommRing R] [LT R] [DecidableLT R]

theorem foldl_dot_neg (u v : List R) (acc : R) :
    (vzip (· * ·) (u.map (-·)) (v.map (-·))).foldl (· + ·) acc = (vzip (· * ·) u v).foldl (· + ·) acc := by
  induction u generalizing v acc with
  | nil => simp [vzip]
  | cons a as ih =>
    cases v with
    | nil => simp [vzip]
    | cons b bs =>
      simp only [List.map_cons, vzip, List.foldl_cons]
      rw [ih]
      congr 1
      ring

theorem vsub_swap (a b : Vec R) : vsub a b = (vsub b a).map (-·) := by
  induction a generalizing b with
  | nil => simp [vsub, vzip]
  | cons x xs ih =>
    cases b with
    | nil => simp [vsub, vzip]
    | cons y ys =>
      simp only [vsub, vzip, List.map_cons] at ih ⊢
      rw [ih]
      congr 1
      ring

/-- the curvature test does not depend on the order of its two points -/
theorem curv_test_symmetric (x g x' g' : Vec R) (eps : R) : curvOk x g x' g' eps = curvOk x' g' x g eps := by
  have h1 : dot (vsub g g') (vsub g g') = dot (vsub g' g) (vsub g' g) := by
    rw [vsub_swap g g']; exact foldl_dot_neg _ _ _
  have h2 : dot (vsub x x') (vsub g g') = dot (vsub x' x) (vsub g' g) := by
    rw [vsub_swap g g', vsub_swap x x']; exact foldl_dot_neg _ _ _
  unfold curvOk
  simp only [h1, h2]

end ring

/-! ### Non-vacuity over ℤ: the example user of C05 has an identity update; both runs give the
same result -/
section nonvacuous
example : ∀ i : UpdIn ℤ, C05.uZ.update i = .ok ⟨i.f0, i.f0Old, i.grad, i.G⟩ := fun _ => rfl

example : ∃ r s r' s', minimize C05.uZ C05.oZ { C05.cZ with hasUpdate := true } = .ok (r, s) ∧
    minimize C05.uZ C05.oZ { C05.cZ with hasUpdate := false } = .ok (r', s') ∧
    r.x = r'.x ∧ r.f = r'.f ∧ r.jac = r'.jac ∧ r.nfev = r'.nfev ∧ r.nit = r'.nit ∧ r.sk = r'.sk ∧ r.nit = 2 := by
  refine ⟨_, _, _, _, rfl, rfl, ?_⟩
  decide
end nonvacuous

end Lbfgsb.C13
