/-
  C10 — the BFGS matrix in other units. With the objective multiplied by `a` and the variables by `b` (`a, b ≠ 0`) a correction pair
  `(s, y)` becomes `(b s, (a/b) y)` and the scale `θ = yᵀy/sᵀy` becomes `(a/b²) θ`; the dense BFGS matrix of the rescaled pairs
  started from the rescaled `θ I` is `(a/b²)` times the original one. This is the relation `B' = (a/b²) B` that the unit theorems of
  C08 (`cauchy_point_units`) and C09 (`subspace_point_units`) ask of the two models; with `kernel_matrix_is_bfgs` it holds for the
  kernels' own matrices built from a history and from the same history in other units.
-/
import LbfgsbVerif.Props.C10

set_option linter.unusedSectionVars false

namespace Lbfgsb.C10
open Matrix
variable {n : Type} [Fintype n] [DecidableEq n]
variable {K : Type} [Field K] [LinearOrder K] [IsStrictOrderedRing K]

/-- one update, in other units -/
theorem bfgs_units (a b : K) (ha : a ≠ 0) (hb : b ≠ 0) (B : Matrix n n K) (s y : n → K) :
    bfgs ((a / (b * b)) • B) (b • s) ((a / b) • y) = (a / (b * b)) • bfgs B s y := by
  have e3 : ((a / (b * b)) • B) *ᵥ (b • s) = (a / b) • (B *ᵥ s) := by
    rw [smul_mulVec, mulVec_smul, smul_smul]
    congr 1
    field_simp
  have e1 : (b • s) ⬝ᵥ (((a / (b * b)) • B) *ᵥ (b • s)) = a * (s ⬝ᵥ (B *ᵥ s)) := by
    rw [e3, smul_dotProduct, dotProduct_smul, smul_eq_mul, smul_eq_mul, ← mul_assoc]
    congr 1
    field_simp
  have e2 : (b • s) ⬝ᵥ ((a / b) • y) = a * (s ⬝ᵥ y) := by
    rw [smul_dotProduct, dotProduct_smul, smul_eq_mul, smul_eq_mul, ← mul_assoc]
    congr 1
    field_simp
  have vv : ∀ (c : K) (u v : n → K), vecMulVec (c • u) (c • v) = (c * c) • vecMulVec u v := by
    intro c u v
    ext r q
    simp only [vecMulVec_apply, Pi.smul_apply, smul_eq_mul, smul_apply]
    ring
  unfold bfgs
  rw [e1, e3, e2, vv, vv, smul_add, smul_sub, smul_smul, smul_smul, smul_smul, smul_smul]
  have c1 : 1 / (a * (s ⬝ᵥ (B *ᵥ s))) * (a / b * (a / b)) = a / (b * b) * (1 / (s ⬝ᵥ (B *ᵥ s))) := by
    rw [one_div, one_div, mul_inv]
    generalize (s ⬝ᵥ (B *ᵥ s))⁻¹ = t
    field_simp
  have c2 : 1 / (a * (s ⬝ᵥ y)) * (a / b * (a / b)) = a / (b * b) * (1 / (s ⬝ᵥ y)) := by
    rw [one_div, one_div, mul_inv]
    generalize (s ⬝ᵥ y)⁻¹ = t
    field_simp
  rw [c1, c2]

/-- the chain of updates, in other units -/
theorem bfgsChain_units (a b : K) (ha : a ≠ 0) (hb : b ≠ 0) (B : Matrix n n K) (ps : List ((n → K) × (n → K))) :
    bfgsChain ((a / (b * b)) • B) (ps.map fun p => (b • p.1, (a / b) • p.2)) = (a / (b * b)) • bfgsChain B ps := by
  induction ps generalizing B with
  | nil => rfl
  | cons p ps ih =>
    simp only [List.map_cons, bfgsChain]
    rw [bfgs_units a b ha hb, ih]

/-- … started from the scaled identity, with the scale `θ` in the other units -/
theorem bfgsChain_theta_units (a b θ : K) (ha : a ≠ 0) (hb : b ≠ 0) (ps : List ((n → K) × (n → K))) :
    bfgsChain ((a / (b * b) * θ) • (1 : Matrix n n K)) (ps.map fun p => (b • p.1, (a / b) • p.2)) =
      (a / (b * b)) • bfgsChain (θ • (1 : Matrix n n K)) ps := by
  rw [← bfgsChain_units a b ha hb, smul_smul]

end Lbfgsb.C10
