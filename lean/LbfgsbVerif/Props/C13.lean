/-
  C13 — redefining the objective on the fly acts as a restart on the new objective.

  Level U theorems about the history filter `filterWolfe`
  (`make_X_and_G_respect_strong_wolfe`), for arbitrary rewritten gradients `G`:

  * `filter_keeps_newest`: the newest point is always retained (it is the last element of
    the filtered history);
  * `filter_subsequence`: the filtered history is an order-preserving subsequence of the
    history handed in;
  * `filter_curvature`: every pair of consecutive retained points passed the curvature test
    — the very term that is evaluated;
  * `identity_filter_noop`: if all consecutive pairs of the history handed in pass the test,
    the filter returns the history unchanged (so an update function that returns its inputs
    unchanged leaves the memory as it is).
  The clauses about complete runs (identity update = run without it, bit for bit; pairs of
  later states are differences of the rewritten gradients; next iterate = restart on the new
  objective) are decided by the correspondence (bit-exact replay with recorded update
  functions) and the search (pair runs, restart comparison).
-/
import LbfgsbVerif.Model.Memory
import LbfgsbVerif.Model.Shell
import Mathlib.Order.Defs.LinearOrder
import Mathlib.Data.Int.Order.Basic

namespace Lbfgsb.C13
open Lbfgsb
variable {α : Type} [Add α] [Sub α] [Mul α] [LT α] [DecidableLT α] [OfNat α 0]

/-- all consecutive pairs `(older, newer)` pass the curvature test, in the orientation the
filter evaluates it -/
def PairsOk (eps : α) : List (Vec α) → List (Vec α) → Prop
  | x1 :: x2 :: xs, g1 :: g2 :: gs =>
    curvOk x1 g1 x2 g2 eps = true ∧ PairsOk eps (x2 :: xs) (g2 :: gs)
  | _, _ => True

theorem filterGo_spec (eps : α) (xs gs : List (Vec α)) (acc : List (Vec α) × List (Vec α))
    (ha : PairsOk eps acc.1 acc.2) (hl : acc.1.length = acc.2.length) (hne : acc.1 ≠ []) :
    let r := filterGo eps xs gs acc
    PairsOk eps r.1 r.2 ∧ r.1.length = r.2.length ∧ r.1 ≠ [] ∧
      (∃ pre, r.1 = pre ++ acc.1) ∧ (∃ pre, r.2 = pre ++ acc.2) ∧
      List.Sublist r.1 (xs ++ acc.1) := by
  induction xs generalizing gs with
  | nil =>
    have e : filterGo eps [] gs acc = acc := by cases gs <;> rfl
    simp only [e, List.nil_append]
    exact ⟨ha, hl, hne, ⟨[], rfl⟩, ⟨[], rfl⟩, List.Sublist.refl _⟩
  | cons x xs ih =>
    cases gs with
    | nil =>
      simp only [filterGo]
      exact ⟨ha, hl, hne, ⟨[], rfl⟩, ⟨[], rfl⟩, List.sublist_append_right _ _⟩
    | cons g gs =>
      obtain ⟨h1, h2, h3, ⟨p1, hp1⟩, ⟨p2, hp2⟩, h5⟩ := ih gs
      simp only [filterGo]
      split
      · rename_i hc
        refine ⟨?_, by simp [h2], by simp, ⟨x :: p1, by simp [hp1]⟩, ⟨g :: p2, by simp [hp2]⟩,
          List.Sublist.cons_cons _ h5⟩
        -- the new head passed the test against the previous head
        generalize hr : filterGo eps xs gs acc = r at h1 h2 h3 hc
        obtain ⟨r1, r2⟩ := r
        cases r1 with
        | nil => simp at h3
        | cons y ys =>
          cases r2 with
          | nil => simp at h2
          | cons k ks =>
            simp only [PairsOk]
            exact ⟨by simpa using hc, h1⟩
      · exact ⟨h1, h2, h3, ⟨p1, hp1⟩, ⟨p2, hp2⟩, List.Sublist.cons _ h5⟩

/-- **C13 (1)** the newest point of the history is always retained (as the newest retained
point), together with its gradient. -/
theorem filter_keeps_newest (eps : α) (X G : List (Vec α)) (xl gl : Vec α) (X0 G0 : List (Vec α))
    (hX : X = X0 ++ [xl]) (hG : G = G0 ++ [gl]) :
    (filterWolfe X G eps).1.getLast? = some xl ∧ (filterWolfe X G eps).2.getLast? = some gl := by
  subst hX; subst hG
  simp only [filterWolfe, List.reverse_append, List.reverse_cons, List.reverse_nil, List.nil_append,
    List.singleton_append, List.reverse_reverse]
  obtain ⟨-, -, -, ⟨p1, hp1⟩, ⟨p2, hp2⟩, -⟩ :=
    filterGo_spec eps X0 G0 ([xl], [gl]) (by simp [PairsOk]) rfl (by simp)
  simp only at hp1 hp2
  rw [hp1, hp2]
  simp

/-- **C13 (2)** the filtered history is a subsequence (order preserved) of the one handed in. -/
theorem filter_subsequence (eps : α) (X G : List (Vec α)) :
    List.Sublist (filterWolfe X G eps).1 X := by
  unfold filterWolfe
  split
  · rename_i xl xs gl gs hx hg
    have hX : X = xs.reverse ++ [xl] := by
      have := congrArg List.reverse hx
      simpa using this
    obtain ⟨-, -, -, -, -, h5⟩ :=
      filterGo_spec eps xs.reverse gs.reverse ([xl], [gl]) (by simp [PairsOk]) rfl (by simp)
    rw [hX]
    exact h5
  · exact List.Sublist.refl _

/-- **C13 (3)** every retained consecutive pair satisfies the curvature condition. -/
theorem filter_curvature (eps : α) (X G : List (Vec α)) (hne : X ≠ []) (hG : G ≠ []) :
    PairsOk eps (filterWolfe X G eps).1 (filterWolfe X G eps).2 := by
  unfold filterWolfe
  split
  · rename_i xl xs gl gs hx hg
    obtain ⟨h1, -⟩ :=
      filterGo_spec eps xs.reverse gs.reverse ([xl], [gl]) (by simp [PairsOk]) rfl (by simp)
    exact h1
  · rename_i h
    exfalso
    cases hxr : X.reverse with
    | nil => simp at hxr; exact hne hxr
    | cons a as =>
      cases hgr : G.reverse with
      | nil => simp at hgr; exact hG hgr
      | cons b bs => exact h a as b bs hxr hgr

/-- the walk keeps everything when every consecutive pair passes -/
theorem filterGo_all (eps : α) (xs gs : List (Vec α)) (acc : List (Vec α) × List (Vec α))
    (hlen : xs.length = gs.length) (hok : PairsOk eps (xs ++ acc.1) (gs ++ acc.2))
    (hne : acc.1 ≠ []) (hne2 : acc.2 ≠ []) :
    filterGo eps xs gs acc = (xs ++ acc.1, gs ++ acc.2) := by
  induction xs generalizing gs with
  | nil =>
    cases gs with
    | nil => simp [filterGo]
    | cons g gs => simp at hlen
  | cons x xs ih =>
    cases gs with
    | nil => simp at hlen
    | cons g gs =>
      have hlen' : xs.length = gs.length := by simpa using hlen
      -- the tail
      have htail : PairsOk eps (xs ++ acc.1) (gs ++ acc.2) := by
        cases hx : xs ++ acc.1 with
        | nil => simp [PairsOk]
        | cons y ys =>
          cases hg : gs ++ acc.2 with
          | nil => simp [PairsOk]
          | cons k ks =>
            simp only [List.cons_append, hx, hg, PairsOk] at hok
            exact hok.2
      have ihh := ih gs hlen' htail
      simp only [filterGo, ihh]
      -- the head pair
      cases hx : xs ++ acc.1 with
      | nil =>
        have : acc.1 = [] := (List.append_eq_nil_iff.1 hx).2
        exact absurd this hne
      | cons y ys =>
        cases hg : gs ++ acc.2 with
        | nil =>
          have : acc.2 = [] := (List.append_eq_nil_iff.1 hg).2
          exact absurd this hne2
        | cons k ks =>
          simp only [List.cons_append, hx, hg, PairsOk] at hok
          simp only [List.headD_cons, hok.1, if_true, List.cons_append, hx, hg]

/-- **C13 (4)** a history all of whose consecutive pairs pass the test is returned unchanged:
with an update function that returns its inputs the filter is a no-op. -/
theorem identity_filter_noop (eps : α) (X G : List (Vec α)) (hlen : X.length = G.length)
    (hok : PairsOk eps X G) : filterWolfe X G eps = (X, G) := by
  unfold filterWolfe
  split
  · rename_i xl xs gl gs hx hg
    have hX : X = xs.reverse ++ [xl] := by simpa using congrArg List.reverse hx
    have hG : G = gs.reverse ++ [gl] := by simpa using congrArg List.reverse hg
    have hl : xs.reverse.length = gs.reverse.length := by
      rw [hX, hG] at hlen; simpa using hlen
    rw [filterGo_all eps xs.reverse gs.reverse ([xl], [gl]) hl (by rw [← hX, ← hG]; exact hok)
      (by simp) (by simp)]
    rw [hX, hG]
  · rfl

/-! ### the matrices follow the rewritten history (driver model) -/
section driver
variable {β : Type} [Add β] [Sub β] [Mul β] [Div β] [Neg β] [LT β] [DecidableLT β] [OfNat β 0] [OfNat β 1]
  [FloatLike β]

/-- **C13 (5)** with an update function, after the memory step of an iteration the matrices
snapshot is exactly the current (rewritten, filtered, possibly extended) history — also when the
newest pair was rejected, in which case it is rebuilt from the rewritten gradients, or reset to
"no pair" when a single point is left. (The defect repaired by "rebuild the matrices after
update_fun_def rewrote the gradients even if the new pair is rejected" kept the stale snapshot.) -/
theorem memStep_mats_current (c : Cfg β) (s : St β) (hU : c.hasUpdate = true) :
    (memStep c s).mats = some ((memStep c s).X, (memStep c s).G) ∨
    ((memStep c s).mats = none ∧ (memStep c s).X.length ≤ 1) := by
  unfold memStep updateMats
  simp only [hU, if_true]
  split
  · left
    split <;> rfl
  · simp only [Bool.false_eq_true, if_false]
    split
    · left; rfl
    · right; exact ⟨rfl, by omega⟩

end driver

/-! ### Non-vacuity: over `ℤ`, a history of four points whose middle pair breaks the
curvature condition after the rewrite: the filter drops one point and keeps the newest. -/
section nonvacuous
def Xz : List (Vec Int) := [[0], [1], [2], [3]]
def Gz : List (Vec Int) := [[0], [2], [1], [4]]

example : filterWolfe Xz Gz (0 : Int) = ([[0], [2], [3]], [[0], [1], [4]]) := by decide
example : PairsOk (0 : Int) (filterWolfe Xz Gz 0).1 (filterWolfe Xz Gz 0).2 := by
  simp only [show filterWolfe Xz Gz (0 : Int) = ([[0], [2], [3]], [[0], [1], [4]]) by decide]
  simp only [PairsOk]
  decide
end nonvacuous

end Lbfgsb.C13
