/-
  C16/C02 at run level: with the model of the differencing routine as the source of the stencil
  points, the contract `Ctx2.stencil` that C02 assumes is a theorem (C16 `fd_points_in_box`), so
  the whole-run statement "every user evaluation is inside the box" holds in finite-difference
  mode without any assumption on the differencing — for ANY arithmetic (level U).
-/
import LbfgsbVerif.Props.C02
import LbfgsbVerif.Props.C16

namespace Lbfgsb.C16
open Lbfgsb Lbfgsb.FD

variable {α ε δ : Type}
variable [LinearOrder α] [Add α] [Sub α] [Mul α] [Div α] [Neg α] [OfNat α 0] [OfNat α 1]
  [FloatLike α]

/-- **C16 (run level)** finite-difference runs: every point at which the user's objective is
evaluated — stencil points included —, every callback state and the result are inside the box;
`fdPts` is the model of the package's differencing (scheme `sch`, step rule `hOf`). -/
theorem evals_in_box_fd (u : User α ε) (o : Oracles α δ) (c : Cfg α) (sch : Scheme) (hOf : α → α)
    (hfd : ∀ x f, u.fdPts x f = points sch hOf x c.lb c.ub)
    (hbox : BoxOk c.lb c.ub) (hn : c.x0.length = c.lb.length)
    (hxbar : ∀ x g m, InBox c.lb c.ub x → (o.xbar x g m).length = x.length)
    (hck : ∀ ck, c.checkpoint = some ck → ck.x = clip c.x0 c.lb c.ub)
    (r : Result α) (s : St α) (h : minimize u o c = .ok (r, s)) :
    (∀ call ∈ s.sf.log, call.kind ≠ .ftarget → call.kind ≠ .gtol → InBox c.lb c.ub call.arg) ∧
    (∀ cb ∈ s.cbStates, InBox c.lb c.ub cb.x) ∧
    InBox c.lb c.ub r.x :=
  C02.evals_in_box u o c
    ⟨hbox, hn, hxbar, fun x f hx p hp => fd_points_in_box sch hOf x c.lb c.ub hx p (by rw [hfd] at hp; exact hp), hck⟩
    r s h

end Lbfgsb.C16
