/-
  C10 — the product with the middle matrix through the triangular factors (`bfgsmats.py :
  form_invMfactors`, `bmv`), level F (any field, Mathlib block matrices).

  The package never inverts `M⁻¹ = [[−D, Lᵀ], [L, θ SᵀS]]`: it forms a lower and an upper
  triangular factor from `√D`, `1/√D`, `L` and the Cholesky factor `J` of
  `T = θ SᵀS + L D⁻¹ Lᵀ`, and `bmv` solves with the two factors in turn.
    * `invM_factorisation`: the product of the two factors IS `M⁻¹` (Byrd–Nocedal–Schnabel,
      algorithm 3.2) — for any `sqD`, `sqI` with `sqD·sqD = D`, `sqD·sqI = sqI·sqD = 1` (the
      diagonal `√D` and `1/√D`) and any `J` with `J Jᵀ = T`;
    * `bmv_is_product`: hence what two exact triangular solves return is `M v`, for `M` the inverse
      of that matrix — the hypothesis `hmv`/`hmvc` of the C08/C09 theorems for the code's own way of
      computing the product.
  What stays outside: that `scipy.linalg.cholesky` / `solve_triangular` are exact (they round), and
  that `T` is positive definite so that `J` exists (C10 `bfgs_posdef`-type arguments; monitored).
-/
import Mathlib.Data.Matrix.Block
import Mathlib.Data.Matrix.Mul
import Mathlib.Tactic.Abel

namespace Lbfgsb.C10
open Matrix
variable {K : Type} [Field K] {m : Nat}

/-- **C10 (factors)** `[[√D, 0], [−L/√D, J]] · [[−√D, Lᵀ/√D], [0, Jᵀ]] = [[−D, Lᵀ], [L, θ SᵀS]]` -/
theorem invM_factorisation (D sqD sqI L J STS : Matrix (Fin m) (Fin m) K) (θ : K)
    (h1 : sqD * sqD = D) (h2 : sqD * sqI = 1) (h3 : sqI * sqD = 1)
    (hJ : J * Jᵀ = θ • STS + L * (sqI * sqI) * Lᵀ) :
    fromBlocks sqD 0 (-(L * sqI)) J * fromBlocks (-sqD) (sqI * Lᵀ) 0 Jᵀ =
      fromBlocks (-D) Lᵀ L (θ • STS) := by
  rw [fromBlocks_multiply]
  congr 1
  · rw [Matrix.mul_neg, h1, Matrix.zero_mul, add_zero]
  · rw [← Matrix.mul_assoc, h2, Matrix.one_mul, Matrix.zero_mul, add_zero]
  · rw [Matrix.neg_mul, Matrix.mul_neg, neg_neg, Matrix.mul_assoc, h3, Matrix.mul_one, Matrix.mul_zero, add_zero]
  · rw [hJ, Matrix.neg_mul, Matrix.mul_assoc L sqI, ← Matrix.mul_assoc sqI sqI, ← Matrix.mul_assoc L]
    abel

/-- **C10 (`bmv`)** two exact triangular solves with the factors return the product with the
inverse of the factored matrix -/
theorem bmv_is_product {ι : Type} [Fintype ι] [DecidableEq ι] (F1 F2 Minv M : Matrix ι ι K)
    (hF : F1 * F2 = Minv) (hM : M * Minv = 1) (v w p : ι → K) (hs1 : F1 *ᵥ w = v) (hs2 : F2 *ᵥ p = w) :
    p = M *ᵥ v := by
  have : Minv *ᵥ p = v := by rw [← hF, ← mulVec_mulVec, hs2, hs1]
  rw [← this, mulVec_mulVec, hM, one_mulVec]

end Lbfgsb.C10
