/-
  C01 — convex box-constrained problems are solved to a first-order (KKT) point.

  Global convergence of the whole iteration is not within reach of a proof here (it rests on the
  line search of SciPy and on floating-point resolution); what is proved, level F (ordered
  field), about the stop test and about the first step of every iteration:
    * `projgr_zero_iff_kkt`: the quantity the stop test measures, `‖P(x − g) − x‖∞`, is zero
      exactly at the first-order points of the box problem: for every `i`, `g_i = 0`, or
      `x_i = lb_i ∧ g_i > 0`, or `x_i = ub_i ∧ g_i < 0` (for a convex objective these are the
      minimisers);
    * `d0_zero_iff_kkt`: the initial direction of the generalized-Cauchy search (model
      `cauchyD0 ∘ breakpoints` of cauchy.py) vanishes in exactly the same coordinates — a
      variable resting on a bound with the gradient pushing outward has a zero breakpoint and does
      not move, every other variable with a non-zero partial derivative does;
    * `nonstationary_moves`: hence at a point that is not first-order stationary the Cauchy
      search has a non-zero direction: the solver cannot stall there because of the variables
      resting on their bounds;
    * `moving_breakpoint_pos`, `d0_descent_term`: each moving variable has a strictly positive
      breakpoint (it enters the ordered breakpoint list, see C08) and contributes `−g_i²` to the
      directional derivative: the direction is a descent direction.
  With C04 `report_truthful` (message PGTOL ⇒ `projgr ≤ gtol` for the returned `x`, `jac`) and C05
  `result_coherent` (`jac` is the gradient at `x`) the reported convergence is truthful; that
  the iteration actually gets there on every generated convex problem is decided by the search.
-/
import LbfgsbVerif.Model.Cauchy
import LbfgsbVerif.Proofs.C11
import Mathlib.Algebra.Order.Field.Basic
import Mathlib.Algebra.Order.Field.Rat
import Mathlib.Tactic.Linarith
import Mathlib.Tactic.FieldSimp
import Mathlib.Tactic.Ring
import Mathlib.Tactic.Push

namespace Lbfgsb.C01
open Lbfgsb

variable {α : Type} [Field α] [LinearOrder α] [IsStrictOrderedRing α]

/-- first-order condition for one coordinate -/
def KKT1 (x g l u : α) : Prop := g = 0 ∨ (x = l ∧ 0 < g) ∨ (x = u ∧ g < 0)

def KKT : Vec α → Vec α → Vec α → Vec α → Prop
  | x :: xs, g :: gs, l :: ls, u :: us => KKT1 x g l u ∧ KKT xs gs ls us
  | _, _, _, _ => True

theorem pg1_zero_iff (x g l u : α) (hl : l ≤ x) (hu : x ≤ u) :
    clip1 l u (x - g) - x = 0 ↔ KKT1 x g l u := by
  unfold clip1 KKT1
  constructor
  · intro h
    split at h
    · right; left
      have : x = l := by linarith
      exact ⟨this, by linarith⟩
    · split at h
      · right; right
        have : x = u := by linarith
        exact ⟨this, by linarith⟩
      · left; linarith
  · rintro (h | ⟨h1, h2⟩ | ⟨h1, h2⟩)
    · subst h
      simp only [sub_zero]
      rw [if_neg (not_lt.2 hl), if_neg (not_lt.2 hu)]; ring
    · rw [if_pos (by linarith)]; linarith
    · rw [if_neg (by linarith), if_pos (by linarith)]; linarith

/-- one coordinate of `breakpoints` -/
def bp1 (x g l u : α) : Option α :=
  if feq g 0 then none else if g < 0 then some ((x - u) / g) else some ((x - l) / g)

/-- one coordinate of `cauchyD0` -/
def d01 (t : Option α) (g : α) : α :=
  match t with
  | some v => if feq v 0 then 0 else -g
  | none => -g

theorem feq_zero_iff (a : α) : feq a 0 = true ↔ a = 0 := by
  simp only [feq, Bool.and_eq_true, Bool.not_eq_true', decide_eq_false_iff_not, not_lt]
  exact ⟨fun h => le_antisymm h.2 h.1, fun h => by subst h; exact ⟨le_refl _, le_refl _⟩⟩

theorem d01_zero_iff (x g l u : α) (hl : l ≤ x) (hu : x ≤ u) :
    d01 (bp1 x g l u) g = 0 ↔ KKT1 x g l u := by
  unfold bp1 KKT1
  by_cases hg : g = 0
  · subst hg
    simp [d01, (feq_zero_iff (0 : α)).2 rfl]
  · have hf : feq g 0 = false := by
      rw [← Bool.not_eq_true]; exact fun h => hg ((feq_zero_iff g).1 h)
    simp only [hf, Bool.false_eq_true, if_false]
    rcases lt_or_gt_of_ne hg with hneg | hpos
    · rw [if_pos hneg]
      simp only [d01]
      constructor
      · intro h
        split at h
        · rename_i hz
          rw [feq_zero_iff] at hz
          have : x - u = 0 := by
            rcases div_eq_zero_iff.1 hz with h' | h'
            · exact h'
            · exact absurd h' hg
          right; right; exact ⟨by linarith, hneg⟩
        · exact absurd (neg_eq_zero.1 h) hg
      · rintro (h | ⟨-, h2⟩ | ⟨h1, -⟩)
        · exact absurd h hg
        · exact absurd h2 (not_lt.2 (le_of_lt hneg))
        · have : feq ((x - u) / g) 0 = true := by rw [feq_zero_iff, h1, sub_self, zero_div]
          rw [if_pos this]
    · have hng : ¬ g < 0 := not_lt.2 (le_of_lt hpos)
      rw [if_neg hng]
      simp only [d01]
      constructor
      · intro h
        split at h
        · rename_i hz
          rw [feq_zero_iff] at hz
          have : x - l = 0 := by
            rcases div_eq_zero_iff.1 hz with h' | h'
            · exact h'
            · exact absurd h' hg
          right; left; exact ⟨by linarith, hpos⟩
        · exact absurd (neg_eq_zero.1 h) hg
      · rintro (h | ⟨h1, -⟩ | ⟨-, h2⟩)
        · exact absurd h hg
        · have : feq ((x - l) / g) 0 = true := by rw [feq_zero_iff, h1, sub_self, zero_div]
          rw [if_pos this]
        · exact absurd h2 hng

/-- **C01 (c)** a moving variable has a strictly positive (or infinite) breakpoint -/
theorem moving_breakpoint_pos (x g l u : α) (hl : l ≤ x) (hu : x ≤ u)
    (hm : d01 (bp1 x g l u) g ≠ 0) : bpPos (bp1 x g l u) = true := by
  unfold bp1 at hm ⊢
  by_cases hg : g = 0
  · subst hg; simp [(feq_zero_iff (0 : α)).2 rfl, bpPos]
  · have hf : feq g 0 = false := by
      rw [← Bool.not_eq_true]; exact fun h => hg ((feq_zero_iff g).1 h)
    simp only [hf, Bool.false_eq_true, if_false] at hm ⊢
    rcases lt_or_gt_of_ne hg with hneg | hpos
    · simp only [hneg, if_true, d01, bpPos, decide_eq_true_eq] at hm ⊢
      have hne : (x - u) / g ≠ 0 := by
        intro h0; apply hm; rw [if_pos ((feq_zero_iff _).2 h0)]
      have : (x - u) / g ≥ 0 := div_nonneg_of_nonpos (by linarith) (le_of_lt hneg)
      exact lt_of_le_of_ne this (Ne.symm hne)
    · have hng : ¬ g < 0 := not_lt.2 (le_of_lt hpos)
      simp only [hng, if_false, d01, bpPos, decide_eq_true_eq] at hm ⊢
      have hne : (x - l) / g ≠ 0 := by
        intro h0; apply hm; rw [if_pos ((feq_zero_iff _).2 h0)]
      have : (x - l) / g ≥ 0 := div_nonneg (by linarith) (le_of_lt hpos)
      exact lt_of_le_of_ne this (Ne.symm hne)

/-- **C01 (d)** every coordinate contributes `−d_i²` to the directional derivative `g·d` -/
theorem d0_descent_term (t : Option α) (g : α) : g * d01 t g = -(d01 t g * d01 t g) := by
  unfold d01
  cases t with
  | none => ring
  | some v => simp only; split <;> ring

/-! ### vector level -/

theorem breakpoints_cons (x g l u : α) (xs gs ls us : Vec α) :
    breakpoints (x :: xs) (g :: gs) (l :: ls) (u :: us) = bp1 x g l u :: breakpoints xs gs ls us := rfl

theorem cauchyD0_cons (t : Option α) (ts : List (Option α)) (g : α) (gs : Vec α) :
    cauchyD0 (t :: ts) (g :: gs) = d01 t g :: cauchyD0 ts gs := by
  cases t <;> rfl

/-- **C01 (b)** the initial Cauchy direction is zero exactly at the first-order points. -/
theorem d0_zero_iff_kkt (x g lb ub : Vec α) (hbox : InBoxF lb ub x) (hg : g.length = x.length) :
    (∀ d ∈ cauchyD0 (breakpoints x g lb ub) g, d = 0) ↔ KKT x g lb ub := by
  induction x generalizing g lb ub with
  | nil =>
    cases g <;> cases lb <;> cases ub <;> simp [breakpoints, cauchyD0, KKT]
  | cons xi xs ih =>
    cases g with
    | nil => simp at hg
    | cons gi gs =>
      cases lb with
      | nil => cases ub <;> simp [InBoxF] at hbox
      | cons li ls =>
        cases ub with
        | nil => simp [InBoxF] at hbox
        | cons ui us =>
          simp only [InBoxF] at hbox
          rw [breakpoints_cons, cauchyD0_cons]
          simp only [List.mem_cons, forall_eq_or_imp, KKT]
          rw [d01_zero_iff xi gi li ui hbox.1.1 hbox.1.2, ih gs ls us hbox.2 (by simpa using hg)]

theorem fabs_nonneg (a : α) : 0 ≤ fabs a := by
  unfold fabs; split
  · linarith
  · exact not_lt.1 ‹_›

theorem fabs_zero_iff (a : α) : fabs a = 0 ↔ a = 0 := by
  unfold fabs; split
  · constructor
    · intro h; linarith
    · intro h; subst h; simp
  · rfl

theorem foldl_fmax_zero (v : Vec α) (acc : α) (hacc : 0 ≤ acc) :
    v.foldl (fun acc a => fmax acc (fabs a)) acc = 0 ↔ acc = 0 ∧ ∀ a ∈ v, a = 0 := by
  induction v generalizing acc with
  | nil => simp
  | cons a as ih =>
    simp only [List.foldl_cons, List.mem_cons, forall_eq_or_imp]
    have hm : 0 ≤ fmax acc (fabs a) := by
      unfold fmax; split
      · exact fabs_nonneg a
      · exact hacc
    rw [ih _ hm]
    have key : fmax acc (fabs a) = 0 ↔ acc = 0 ∧ a = 0 := by
      unfold fmax
      have h0 := fabs_nonneg a
      split
      · rename_i hlt
        constructor
        · intro h; rw [h] at hlt; exact absurd hlt (not_lt.2 hacc)
        · rintro ⟨h1, h2⟩; subst h2; rw [(fabs_zero_iff 0).2 rfl]
      · rename_i hge
        constructor
        · intro h
          refine ⟨h, (fabs_zero_iff a).1 ?_⟩
          rw [h] at hge
          exact le_antisymm (not_lt.1 hge) h0
        · rintro ⟨h1, -⟩; exact h1
    rw [key]
    tauto

/-- **C01 (a)** the projected-gradient norm of the stop test is zero exactly at the first-order
(KKT) points of the box problem. -/
theorem projgr_zero_iff_kkt (x g lb ub : Vec α) (hbox : InBoxF lb ub x) (hg : g.length = x.length) :
    projgr x g lb ub = 0 ↔ KKT x g lb ub := by
  unfold projgr maxAbs
  rw [foldl_fmax_zero _ 0 (le_refl _)]
  simp only [true_and]
  induction x generalizing g lb ub with
  | nil =>
    cases g <;> cases lb <;> cases ub <;> simp [vsub, vzip, clip, KKT]
  | cons xi xs ih =>
    cases g with
    | nil => simp at hg
    | cons gi gs =>
      cases lb with
      | nil => cases ub <;> simp [InBoxF] at hbox
      | cons li ls =>
        cases ub with
        | nil => simp [InBoxF] at hbox
        | cons ui us =>
          simp only [InBoxF] at hbox
          have ihh := ih gs ls us hbox.2 (by simpa using hg)
          simp only [vsub, vzip, clip, List.mem_cons, forall_eq_or_imp, KKT] at ihh ⊢
          rw [pg1_zero_iff xi gi li ui hbox.1.1 hbox.1.2, ihh]

/-- **C01 (e)** at a point that is not first-order stationary the generalized-Cauchy search has a
non-zero initial direction: variables resting on a bound with the gradient pushing outward do
not make the solver stall. -/
theorem nonstationary_moves (x g lb ub : Vec α) (hbox : InBoxF lb ub x) (hg : g.length = x.length)
    (hns : projgr x g lb ub ≠ 0) : ∃ d ∈ cauchyD0 (breakpoints x g lb ub) g, d ≠ 0 := by
  by_contra hcon
  push Not at hcon
  exact hns ((projgr_zero_iff_kkt x g lb ub hbox hg).2 ((d0_zero_iff_kkt x g lb ub hbox hg).1 hcon))

/-! ### Non-vacuity (ℚ): x = (1, 0) in [0,1]², g = (−2, 3): both variables rest on a bound with
the gradient pushing outward — stationary; g = (−2, −3): the second variable moves. -/
example : KKT ([1, 0] : Vec ℚ) [-2, 3] [0, 0] [1, 1] := by
  simp [KKT, KKT1]
example : projgr ([1, 0] : Vec ℚ) [-2, 3] [0, 0] [1, 1] = 0 := by decide +kernel
example : cauchyD0 (breakpoints ([1, 0] : Vec ℚ) [-2, -3] [0, 0] [1, 1]) [-2, -3] = [0, 3] := by decide +kernel
example : projgr ([1, 0] : Vec ℚ) [-2, -3] [0, 0] [1, 1] = 1 := by decide +kernel

end Lbfgsb.C01
