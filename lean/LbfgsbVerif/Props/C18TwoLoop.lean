/-
  C18 — what `hess_inv` computes. SciPy's `LbfgsInvHessProduct._matvec` is the two-loop recursion:
  a backward sweep over the pairs (newest to oldest) storing the `α_i`, then a forward sweep. It
  never forms a matrix. The theorems of Props/C18.lean (`inv_bfgs_chain_posdef`: symmetric positive
  definite) are about the dense matrix `invChain H ps` obtained by applying the inverse BFGS update
  pair by pair. Here (any field):
    * `two_loop_eq_chain`: for every list of pairs, initial matrix `H` and vector `x`, the two sweeps
      return `invChain H ps · x` — the operator IS that matrix;
    * `two_loop_spd`: consequently `x ↦ two-loop(x)` is symmetric positive definite for pairs with
      `s·y > 0` (ordered field, `H` SPD — SciPy uses the identity).
  The harness compares `hess_inv.todense()` of real results with an exact rational evaluation of the
  same recursion (harness/props/c18.py).
-/
import LbfgsbVerif.Props.C18

namespace Lbfgsb.C18
open Matrix
variable {n : Type} [Fintype n] [DecidableEq n]
variable {K : Type} [Field K]

/-- the inverse BFGS update (same expression as `invBfgs`, over any field) -/
noncomputable def invUpd (H : Matrix n n K) (s y : n → K) : Matrix n n K :=
  (1 - (1 / (y ⬝ᵥ s)) • vecMulVec s y) * H * (1 - (1 / (y ⬝ᵥ s)) • vecMulVec y s) + (1 / (y ⬝ᵥ s)) • vecMulVec s s

/-- the dense operator of a list of pairs, oldest first (as `invChain`) -/
noncomputable def chainF (H : Matrix n n K) : List ((n → K) × (n → K)) → Matrix n n K
  | [] => H
  | p :: ps => chainF (invUpd H p.1 p.2) ps

theorem chainF_append (H : Matrix n n K) (ps : List ((n → K) × (n → K))) (p : (n → K) × (n → K)) :
    chainF H (ps ++ [p]) = invUpd (chainF H ps) p.1 p.2 := by
  induction ps generalizing H with
  | nil => rfl
  | cons q qs ih => simp only [List.cons_append, chainF]; exact ih _

/-- first sweep, newest pair first: returns the final `q` and the `α`s (newest first) -/
noncomputable def sweep1 : List ((n → K) × (n → K)) → (n → K) → (n → K) × List K
  | [], q => (q, [])
  | p :: rest, q =>
    let a := (1 / (p.2 ⬝ᵥ p.1)) * (p.1 ⬝ᵥ q)
    let r := sweep1 rest (q - a • p.2)
    (r.1, a :: r.2)

/-- second sweep, oldest pair first, each with its `α` -/
noncomputable def sweep2 : List (((n → K) × (n → K)) × K) → (n → K) → (n → K)
  | [], r => r
  | pa :: rest, r => sweep2 rest (r + (pa.2 - (1 / (pa.1.2 ⬝ᵥ pa.1.1)) * (pa.1.2 ⬝ᵥ r)) • pa.1.1)

/-- `LbfgsInvHessProduct._matvec` (pairs oldest first, as SciPy stores them; `H` the initial
matrix, the identity in SciPy) -/
noncomputable def twoLoop (H : Matrix n n K) (ps : List ((n → K) × (n → K))) (x : n → K) : n → K :=
  let nf := ps.reverse
  let r := sweep1 nf x
  sweep2 ((nf.zip r.2).reverse) (H *ᵥ r.1)

theorem sweep2_append (l : List (((n → K) × (n → K)) × K)) (pa : ((n → K) × (n → K)) × K) (r : n → K) :
    sweep2 (l ++ [pa]) r =
      sweep2 l r + (pa.2 - (1 / (pa.1.2 ⬝ᵥ pa.1.1)) * (pa.1.2 ⬝ᵥ sweep2 l r)) • pa.1.1 := by
  induction l generalizing r with
  | nil => rfl
  | cons q qs ih => simp only [List.cons_append, sweep2]; exact ih _

theorem invUpd_mulVec (H : Matrix n n K) (s y x : n → K) :
    invUpd H s y *ᵥ x =
      H *ᵥ (x - ((1 / (y ⬝ᵥ s)) * (s ⬝ᵥ x)) • y) +
        ((1 / (y ⬝ᵥ s)) * (s ⬝ᵥ x) -
          (1 / (y ⬝ᵥ s)) * (y ⬝ᵥ (H *ᵥ (x - ((1 / (y ⬝ᵥ s)) * (s ⬝ᵥ x)) • y)))) • s := by
  have hV : (1 - (1 / (y ⬝ᵥ s)) • vecMulVec y s) *ᵥ x = x - ((1 / (y ⬝ᵥ s)) * (s ⬝ᵥ x)) • y := by
    rw [sub_mulVec, one_mulVec, smul_mulVec, vecMulVec_mulVec]
    congr 1
    rw [op_smul_eq_smul, smul_smul]
  unfold invUpd
  rw [add_mulVec, ← mulVec_mulVec, ← mulVec_mulVec, hV, sub_mulVec, one_mulVec, smul_mulVec, smul_mulVec,
    vecMulVec_mulVec, vecMulVec_mulVec]
  simp only [op_smul_eq_smul, smul_smul]
  rw [sub_smul]
  abel

/-- **C18 (two-loop recursion)** the operator SciPy applies is the dense matrix of the pair-by-pair
inverse BFGS recursion. -/
theorem two_loop_eq_chain (H : Matrix n n K) (ps : List ((n → K) × (n → K))) (x : n → K) :
    twoLoop H ps x = chainF H ps *ᵥ x := by
  unfold twoLoop
  dsimp only
  have key : ∀ (nf : List ((n → K) × (n → K))) (x : n → K),
      sweep2 ((nf.zip (sweep1 nf x).2).reverse) (H *ᵥ (sweep1 nf x).1) = chainF H nf.reverse *ᵥ x := by
    intro nf
    induction nf with
    | nil => intro x; rfl
    | cons p rest ih =>
      intro x
      simp only [sweep1, List.zip_cons_cons, List.reverse_cons]
      rw [sweep2_append, ih, chainF_append, invUpd_mulVec]
  have := key ps.reverse x
  rw [List.reverse_reverse] at this
  exact this

section ordered
variable {K : Type} [Field K] [LinearOrder K] [IsStrictOrderedRing K]

theorem chainF_eq_invChain (H : Matrix n n K) (ps : List ((n → K) × (n → K))) : chainF H ps = invChain H ps := by
  induction ps generalizing H with
  | nil => rfl
  | cons p ps ih => simp only [chainF, invChain]; exact ih _

/-- **C18 (the operator is SPD)** for pairs with `s·y > 0` and an SPD initial matrix the map
`x ↦ two-loop(x)` is the product with a symmetric positive definite matrix. -/
theorem two_loop_spd (H : Matrix n n K) (hH : C10.SPD H) (ps : List ((n → K) × (n → K)))
    (hp : ∀ p ∈ ps, 0 < p.1 ⬝ᵥ p.2) :
    ∃ A : Matrix n n K, C10.SPD A ∧ ∀ x, twoLoop H ps x = A *ᵥ x :=
  ⟨invChain H ps, inv_bfgs_chain_posdef H hH ps hp, fun x => by rw [two_loop_eq_chain, chainF_eq_invChain]⟩

end ordered

end Lbfgsb.C18
