/-
  C13 — "the next iterate equals the one obtained by restarting on the new objective from a checkpoint holding the rewritten history".

  Once the update function has switched the objective it returns its inputs unchanged (the consistent update functions of the property
  do: they rewrite the history once). From the loop state `s` reached right after the redefinition — memory = the rewritten, filtered
  history ending at the current point, matrices rebuilt from it — the two continuations coincide:

    * going on with the run, update function present (and from now on the identity),
    * restarting, WITHOUT any update function, from the checkpoint that is the snapshot of `s`,

  for any number of further iterations: same iterates, values, gradients, correction pairs, counters, termination (everything but the
  ghost logs and the wrapper's cache). Composition of the two whole-loop simulations already proved: `mainLoop_gr` (Proofs/Identity: an
  identity update function is transparent from any state satisfying the memory invariant) and C06 `restart_continues`.
-/
import LbfgsbVerif.Props.C06Sim
import LbfgsbVerif.Proofs.Identity
import LbfgsbVerif.Props.C13Run

namespace Lbfgsb.C13
open Lbfgsb C06
variable {K ε δ : Type} [Field K] [LinearOrder K] [IsStrictOrderedRing K]
attribute [local instance] fieldFloatLike

theorem redefinition_acts_as_restart (u : User K ε) (o : Oracles K δ) (c : Cfg K) (s : St K) (X' G' : List (Vec K)) (a : K)
    (ck : Result K)
    (hid : IdUpdate u)
    (hsym : ∀ x g x' g' : Vec K, curvOk x g x' g' c.epsSY = curvOk x' g' x g c.epsSY) (hmc : 1 ≤ c.maxcor)
    (hmem : MemI c s)
    (hs : Restartable (c.up false) s X' G' a) (hck : SnapshotOf ck s)
    (hS : c.hasScaler = false) (hT : c.ftarget = none) (hg : c.gtol = .const a)
    (hcb : ∀ r, u.callback r = .ok false)
    (i : Init K) (sB : St K)
    (hi : initEval u { (c.up false) with checkpoint := some ck, x0 := s.x } = .ok i)
    (hp : prepare u { (c.up false) with checkpoint := some ck, x0 := s.x } i = .ok sB)
    (fuel : Nat)
    (hfe : guard (c.up false) s = true → FirstEval o (c.up false) s.x s.f s.g (vsub (o.xbar s.x s.g s.mats) s.x) s.nit
      (min (c.up false).maxls ((c.up false).maxfun - s.sf.nfev))) :
    (mainLoop u o (c.up true) fuel s).map St.er2 =
      (mainLoop u o { (c.up false) with checkpoint := some ck, x0 := s.x } fuel sB).map St.er2 := by
  have h1 := mainLoop_gr u o hid c hsym hmc fuel (⟨rfl, hmem⟩ : GR c s s)
  have h2 := restart_continues u o (c.up false) s X' G' a ck hs hck hS rfl hT hg hcb i sB hi hp fuel hfe
  rw [← h2]
  cases hA : mainLoop u o (c.up true) fuel s with
  | error e =>
    cases hB : mainLoop u o (c.up false) fuel s with
    | error e' => rw [hA, hB] at h1; simp only [RelE] at h1; rw [h1]
    | ok b => rw [hA, hB] at h1; simp only [RelE] at h1
  | ok a' =>
    cases hB : mainLoop u o (c.up false) fuel s with
    | error e' => rw [hA, hB] at h1; simp only [RelE] at h1
    | ok b =>
      rw [hA, hB] at h1
      simp only [RelE] at h1
      simp only [Except.map]
      rw [St.er2_of_er h1.1]

/-! ### Non-vacuity (ℚ): the instance of C06Sim — its user's update function returns its inputs; the loop state after one iteration
satisfies the memory invariant and is restartable; three further iterations -/
section nonvacuous

theorem sim_memI : MemI simCfg simState where
  len := rfl
  pos := by simp [simState]
  pairs := by
    show curvOk _ _ _ _ _ = true ∧ True
    exact ⟨by decide +kernel, trivial⟩
  mats := by decide +kernel

example : ∃ sB, (mainLoop simUser simOracles (simCfg.up true) 3 simState).map St.er2 =
    (mainLoop simUser simOracles { (simCfg.up false) with checkpoint := some simState.result, x0 := simState.x } 3 sB).map St.er2 := by
  have hok : (initEval simUser { (simCfg.up false) with checkpoint := some simState.result, x0 := simState.x } >>=
      prepare simUser { (simCfg.up false) with checkpoint := some simState.result, x0 := simState.x }).toBool = true := by
    decide +kernel
  cases hi : initEval simUser { (simCfg.up false) with checkpoint := some simState.result, x0 := simState.x } with
  | error e => rw [hi] at hok; simp [bind, Except.bind, Except.toBool] at hok
  | ok i =>
    cases hp : prepare simUser { (simCfg.up false) with checkpoint := some simState.result, x0 := simState.x } i with
    | error e => rw [hi] at hok; simp only [bind, Except.bind] at hok; rw [hp] at hok; simp [Except.toBool] at hok
    | ok sB =>
      exact ⟨sB, redefinition_acts_as_restart simUser simOracles simCfg simState _ _ _ simState.result (fun _ => rfl)
        (fun x g x' g' => curv_test_symmetric x g x' g' _) (by decide) sim_memI sim_restartable
        ⟨rfl, rfl, rfl, rfl, rfl, rfl, rfl, rfl⟩ rfl rfl rfl (fun _ => rfl) i sB hi hp 3 (fun _ => sim_firstEval)⟩

end nonvacuous

end Lbfgsb.C13
