/-
  C08 / C09 — the composed iteration of the model (Cauchy point, then subspace step, on the kernels' own matrices built from a stored
  history with at least one pair) in other units: with the objective multiplied by `a > 0` and the variables by `b > 0` — `x → b x`,
  `g → (a/b) g`, box and history points scaled by `b`, history gradients by `a/b` — the point the iteration aims its line search at is the
  rescaled point. Hypotheses: those of C01 `complete_iteration_descent_curv` for the original problem (history of vectors of the length
  of `x` whose consecutive pairs have positive curvature, `θ > 0`, feasible `x`, inactive floor) and the inactive floor for the rescaled one
  (with `e = 0`, exact arithmetic, both floors are vacuous).
-/
import LbfgsbVerif.Proofs.UnitsKernel
import LbfgsbVerif.Proofs.KernelSubspec
import LbfgsbVerif.Props.C12Newton

set_option linter.unusedSectionVars false

namespace Lbfgsb.C09
open Lbfgsb Matrix CompactKernel Lbfgsb.Units Lbfgsb.C01
variable {K : Type} [Field K] [LinearOrder K] [IsStrictOrderedRing K]

theorem iteration_units (a b : K) (ha : 0 < a) (hb : 0 < b) (lb ub : Vec K) (e : K) (x g : Vec K) (X G : List (Vec K))
    (hX : X.length > 1) (hXG : X.length = G.length) (hn : 0 < x.length)
    (hS : ∀ j, j < (diffs X).length → ((diffs X).getD j []).length = x.length)
    (hY : ∀ j, j < (diffs X).length → ((diffs G).getD j []).length = x.length)
    (hcurv : ∀ j, j < (diffs X).length → vec x.length ((diffs X).getD j []) ≠ 0 ∧
      0 < vec x.length ((diffs X).getD j []) ⬝ᵥ vec x.length ((diffs G).getD j []))
    (hθ : 0 < thetaOf X G) (box : InBoxF lb ub x)
    (floor : ∀ dd : Fin x.length → K, dd ≠ 0 →
      (∀ r, dd r = 0 ∨ dd r = vec x.length (cauchyD0 (breakpoints x (fitTo x g) lb ub) (fitTo x g)) r) →
      e * f2orgOf (kernelInput x g lb ub (some (X, G)) e) ≤
        dd ⬝ᵥ (C10.bfgsChain ((thetaOf X G) • (1 : Matrix (Fin x.length) (Fin x.length) K))
          (pairsOf x.length (diffs X) (diffs G)) *ᵥ dd))
    (floor' : ∀ dd : Fin x.length → K, dd ≠ 0 →
      (∀ r, dd r = 0 ∨ dd r = vec x.length (cauchyD0 (breakpoints (smul b x) (fitTo (smul b x) (smul (a / b) g)) (smul b lb) (smul b ub))
        (fitTo (smul b x) (smul (a / b) g))) r) →
      e * f2orgOf (kernelInput (smul b x) (smul (a / b) g) (smul b lb) (smul b ub) (some (X.map (smul b), G.map (smul (a / b)))) e) ≤
        dd ⬝ᵥ (C10.bfgsChain ((thetaOf (X.map (smul b)) (G.map (smul (a / b)))) • (1 : Matrix (Fin x.length) (Fin x.length) K))
          (pairsOf x.length (diffs (X.map (smul b))) (diffs (G.map (smul (a / b))))) *ᵥ dd)) :
    xbarModel (smul b lb) (smul b ub) e (smul b x) (smul (a / b) g) (some (X.map (smul b), G.map (smul (a / b)))) =
      smul b (xbarModel lb ub e x g (some (X, G))) := by
  have hbne : b ≠ 0 := ne_of_gt hb
  have hane : a ≠ 0 := ne_of_gt ha
  have hc0 : 0 < a / (b * b) := div_pos ha (mul_pos hb hb)
  obtain ⟨Mm, hk, hmin, hBm, spec⟩ := kernel_subspec lb ub e x g X G hX hXG hn hS hY hcurv hθ box floor
  -- the hypotheses in the other units
  have hX' : (X.map (smul b)).length > 1 := by rw [List.length_map]; exact hX
  have hXG' : (X.map (smul b)).length = (G.map (smul (a / b))).length := by rw [List.length_map, List.length_map]; exact hXG
  have hdl : (diffs (X.map (smul b))).length = (diffs X).length := by rw [diffs_map_smul, List.length_map]
  have hS' : ∀ j, j < (diffs (X.map (smul b))).length → ((diffs (X.map (smul b))).getD j []).length = x.length := by
    intro j hj
    rw [diffs_map_smul, getD_map_smul, smul_length]
    exact hS j (by rwa [hdl] at hj)
  have hY' : ∀ j, j < (diffs (X.map (smul b))).length → ((diffs (G.map (smul (a / b)))).getD j []).length = x.length := by
    intro j hj
    rw [diffs_map_smul, getD_map_smul, smul_length]
    exact hY j (by rwa [hdl] at hj)
  have hcurv' : ∀ j, j < (diffs (X.map (smul b))).length → vec x.length ((diffs (X.map (smul b))).getD j []) ≠ 0 ∧
      0 < vec x.length ((diffs (X.map (smul b))).getD j []) ⬝ᵥ vec x.length ((diffs (G.map (smul (a / b)))).getD j []) := by
    intro j hj
    obtain ⟨h1, h2⟩ := hcurv j (by rwa [hdl] at hj)
    rw [diffs_map_smul, diffs_map_smul, getD_map_smul, getD_map_smul, vec_smul', vec_smul']
    refine ⟨smul_ne_zero hbne h1, ?_⟩
    rw [smul_dotProduct, dotProduct_smul, smul_eq_mul, smul_eq_mul]
    have : b * (a / b * (vec x.length ((diffs X).getD j []) ⬝ᵥ vec x.length ((diffs G).getD j []))) =
        a * (vec x.length ((diffs X).getD j []) ⬝ᵥ vec x.length ((diffs G).getD j [])) := by field_simp
    rw [this]
    exact mul_pos ha h2
  have hθ' : 0 < thetaOf (X.map (smul b)) (G.map (smul (a / b))) := by
    rw [thetaOf_units a b hane hbne X G hX hXG]
    exact mul_pos hc0 hθ
  obtain ⟨Mm', hk', hmin', hBm', spec'⟩ := kernel_subspec_n x.length (smul b lb) (smul b ub) e (smul b x) (smul (a / b) g)
    (X.map (smul b)) (G.map (smul (a / b))) (smul_length b x) hX' hXG' hn hS' hY' hcurv' hθ' (inBoxF_smul b hb _ _ _ box) floor'
  -- the two kernel inputs describe the same problem
  have hi : kernelInput x g lb ub (some (X, G)) e =
      { x, g := fitTo x g, lb, ub, theta := thetaOf X G, W := buildW x.length (thetaOf X G) (diffs X) (diffs G),
        Minv := buildMinv (thetaOf X G) (diffs X) (diffs G), useFactor := true, epsFsec := e } := by
    simp only [kernelInput, hX, if_true]
  have hi' : kernelInput (smul b x) (smul (a / b) g) (smul b lb) (smul b ub) (some (X.map (smul b), G.map (smul (a / b)))) e =
      { x := smul b x, g := fitTo (smul b x) (smul (a / b) g), lb := smul b lb, ub := smul b ub,
        theta := thetaOf (X.map (smul b)) (G.map (smul (a / b))),
        W := buildW (smul b x).length (thetaOf (X.map (smul b)) (G.map (smul (a / b)))) (diffs (X.map (smul b))) (diffs (G.map (smul (a / b)))),
        Minv := buildMinv (thetaOf (X.map (smul b)) (G.map (smul (a / b)))) (diffs (X.map (smul b))) (diffs (G.map (smul (a / b)))),
        useFactor := true, epsFsec := e } := by
    simp only [kernelInput, hX', if_true]
  have hsame : SameProblem a b (kernelInput x g lb ub (some (X, G)) e)
      (kernelInput (smul b x) (smul (a / b) g) (smul b lb) (smul b ub) (some (X.map (smul b), G.map (smul (a / b)))) e) := by
    rw [hi, hi']
    exact ⟨rfl, fitTo_smul b (a / b) x g, rfl, rfl⟩
  -- the two models
  have hB : bmat (kernelInput (smul b x) (smul (a / b) g) (smul b lb) (smul b ub) (some (X.map (smul b), G.map (smul (a / b)))) e).theta
      (wmat x.length _ (kernelInput (smul b x) (smul (a / b) g) (smul b lb) (smul b ub) (some (X.map (smul b), G.map (smul (a / b)))) e).W) Mm' =
      (a / (b * b)) • bmat (kernelInput x g lb ub (some (X, G)) e).theta (wmat x.length _ (kernelInput x g lb ub (some (X, G)) e).W) Mm := by
    rw [hBm', hBm, thetaOf_units a b hane hbne X G hX hXG, diffs_map_smul, diffs_map_smul, pairsOf_units,
      C10.bfgsChain_theta_units a b (thetaOf X G) hane hbne]
  -- the Cauchy points
  have hcu := cauchy_units a b ha hb _ _ x.length _ _ Mm Mm' hsame hk hmin hk' hmin' hB
  have hxcl : (cauchy (kernelInput x g lb ub (some (X, G)) e)).1.length = x.length := by
    obtain ⟨tF, -, -, -, hcp, -⟩ := C08.gcp_first_local_min _ x.length _ Mm hk hmin
    rw [hcp, clip_length]
    simp only [vsub, smul, vzip_length', List.length_map, hmin.q.hx, hmin.q.hg, Nat.min_self]
  -- the subspace points
  exact subspace_units a b ha hb (subInOf (kernelInput x g lb ub (some (X, G)) e))
    (subInOf (kernelInput (smul b x) (smul (a / b) g) (smul b lb) (smul b ub) (some (X.map (smul b), G.map (smul (a / b)))) e))
    x.length _ _ Mm Mm' hsame hcu hmin.q.hx hmin.q.hg hxcl spec spec' hB hmin.pd

/-- **… in exact arithmetic (`e = 0`: the Fortran floor has no role)**: no hypothesis on the rescaled problem at all -/
theorem iteration_units_nofloor (a b : K) (ha : 0 < a) (hb : 0 < b) (lb ub : Vec K) (x g : Vec K) (X G : List (Vec K))
    (hX : X.length > 1) (hXG : X.length = G.length) (hn : 0 < x.length)
    (hS : ∀ j, j < (diffs X).length → ((diffs X).getD j []).length = x.length)
    (hY : ∀ j, j < (diffs X).length → ((diffs G).getD j []).length = x.length)
    (hcurv : ∀ j, j < (diffs X).length → vec x.length ((diffs X).getD j []) ≠ 0 ∧
      0 < vec x.length ((diffs X).getD j []) ⬝ᵥ vec x.length ((diffs G).getD j []))
    (hθ : 0 < thetaOf X G) (box : InBoxF lb ub x) :
    xbarModel (smul b lb) (smul b ub) 0 (smul b x) (smul (a / b) g) (some (X.map (smul b), G.map (smul (a / b)))) =
      smul b (xbarModel lb ub 0 x g (some (X, G))) := by
  have hbne : b ≠ 0 := ne_of_gt hb
  have hane : a ≠ 0 := ne_of_gt ha
  have hSY : (diffs X).length = (diffs G).length := by rw [diffs_length, diffs_length, hXG]
  have hp := C12.pairsOf_curv x.length (diffs X) (diffs G) hSY hcurv
  have hspd := C10.bfgs_chain_posdef _ (C10.scaled_identity_spd (thetaOf X G) hθ) (pairsOf x.length (diffs X) (diffs G)) hp
  apply iteration_units a b ha hb lb ub 0 x g X G hX hXG hn hS hY hcurv hθ box
  · intro dd hne _
    rw [zero_mul]
    exact le_of_lt (hspd.2 dd hne)
  · intro dd hne _
    rw [zero_mul, thetaOf_units a b hane hbne X G hX hXG, diffs_map_smul, diffs_map_smul, pairsOf_units,
      C10.bfgsChain_theta_units a b (thetaOf X G) hane hbne, smul_mulVec, dotProduct_smul, smul_eq_mul]
    exact mul_nonneg (le_of_lt (div_pos ha (mul_pos hb hb))) (le_of_lt (hspd.2 dd hne))

/-- **C17 at the level of the kernels (exact arithmetic)**: multiplying the objective by any `a > 0` — gradient and stored gradients
multiplied by `a`, as a gradient scaler returning `a` does — leaves the point the iteration aims at unchanged -/
theorem iteration_objective_scale (a : K) (ha : 0 < a) (lb ub : Vec K) (x g : Vec K) (X G : List (Vec K))
    (hX : X.length > 1) (hXG : X.length = G.length) (hn : 0 < x.length)
    (hS : ∀ j, j < (diffs X).length → ((diffs X).getD j []).length = x.length)
    (hY : ∀ j, j < (diffs X).length → ((diffs G).getD j []).length = x.length)
    (hcurv : ∀ j, j < (diffs X).length → vec x.length ((diffs X).getD j []) ≠ 0 ∧
      0 < vec x.length ((diffs X).getD j []) ⬝ᵥ vec x.length ((diffs G).getD j []))
    (hθ : 0 < thetaOf X G) (box : InBoxF lb ub x) :
    xbarModel lb ub 0 x (smul a g) (some (X, G.map (smul a))) = xbarModel lb ub 0 x g (some (X, G)) := by
  have h := iteration_units_nofloor a 1 ha one_pos lb ub x g X G hX hXG hn hS hY hcurv hθ box
  have e1 : ∀ v : Vec K, smul 1 v = v := FullNewton.smul_one'
  have e2 : X.map (smul (1 : K)) = X := by
    conv_rhs => rw [← List.map_id X]
    apply List.map_congr_left
    intro v _
    exact e1 v
  rw [e1, e1, e1, e2, div_one, e1] at h
  exact h

/-! ### Non-vacuity (ℚ): the instance of C01Curv (`f = ½|x|²` on `[−2, 2]²`, history `(1,1) → (½,½)`, current point `(½,½)`), objective
multiplied by 3, variables by 5 -/
section nonvacuous

example : xbarModel (smul 5 [-2, -2]) (smul 5 [2, 2]) 0 (smul 5 [1 / 2, 1 / 2]) (smul (3 / 5) [1 / 2, 1 / 2])
      (some (cvX.map (smul 5), cvX.map (smul (3 / 5)))) =
    smul 5 (xbarModel [-2, -2] [2, 2] (0 : ℚ) [1 / 2, 1 / 2] [1 / 2, 1 / 2] (some (cvX, cvX))) := by
  apply iteration_units_nofloor 3 5 (by norm_num) (by norm_num) [-2, -2] [2, 2] [1 / 2, 1 / 2] [1 / 2, 1 / 2] cvX cvX
    (by decide) rfl (by decide)
  · intro j hj
    rw [cv_diffs] at hj ⊢
    match j, hj with
    | 0, _ => rfl
  · intro j hj
    rw [cv_diffs] at hj ⊢
    match j, hj with
    | 0, _ => rfl
  · intro j hj
    rw [cv_diffs] at hj ⊢
    match j, hj with
    | 0, _ =>
      refine ⟨fun e => ?_, ?_⟩
      · have := congrFun e 0
        simp [vec] at this
      · simp [vec, dotProduct, Fin.sum_univ_two]
  · rw [cv_theta]; exact one_pos
  · simp [InBoxF]; norm_num

end nonvacuous

end Lbfgsb.C09
