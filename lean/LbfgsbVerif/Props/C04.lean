/-
  C04 — the termination report is truthful and the run budgets are respected.

  Level U: `α` is any linear order; `+ - * /`, `sqrt`, `isFinite` are arbitrary operations; the
  user's objective, gradient, callback, update function, scaler and threshold callables are
  arbitrary `Except`-valued functions; the kernels (`xbar`) and the DCSRCH stepper are arbitrary
  oracles. Every statement is about `minimize`, the model of `minimize_lbfgsb`, and holds for
  every configuration (`maxiter` from 0, `maxfun` from 1, any `maxls`, restarts from any
  checkpoint, ...). "No NaN" is the only thing the linear order encodes.
-/
import LbfgsbVerif.Proofs.C04
import Mathlib.Data.Int.Order.Basic

namespace Lbfgsb.C04
open Lbfgsb
variable {α ε δ : Type}
variable [LinearOrder α] [Add α] [Sub α] [Mul α] [Div α] [Neg α] [OfNat α 0] [OfNat α 1]
  [FloatLike α]

/-- **C04 (1)** every run returns one of the documented termination reasons — the placeholders
`START` / `RESTART_FROM_LNSRCH` never survive. -/
theorem message_documented (u : User α ε) (o : Oracles α δ) (c : Cfg α) (r : Result α) (s : St α)
    (h : minimize u o c = .ok (r, s)) : r.msg.documented = true := by
  obtain ⟨i, -, hcase⟩ := minimize_cases u o c r s h
  rcases hcase with ⟨-, he⟩ | ⟨-, s0, s1, ps, ls, hs, hr⟩
  · unfold earlyResult at he
    split at he <;> (injection he with h1 _; subst h1; rfl)
  · subst hr; subst hs
    simp only [St.result, classify]
    split
    · rfl
    · split
      · rfl
      · split
        · rfl
        · rename_i h1 h2 h3
          -- none of the three classification tests fired
          rcases ls.exit with hg | hb | hn
          · -- guard false and pg > gtol, nit < maxiter, nfev < maxfun: success
            have hsucc : s1.success = true := by
              simp only [guard, Bool.and_eq_false_iff, decide_eq_false_iff_not,
                Bool.not_eq_false'] at hg
              rcases hg with ((hg | hg) | hg) | hg
              · simp at h1; exact absurd h1 hg
              · omega
              · omega
              · exact hg
            rcases ls.inv.succ_task hsucc with ht | ht | ht <;> simp [ht, Msg.documented]
          · rcases hb with ht | ht | ht <;> simp [ht, Msg.documented]
          · omega

/-- the state the report talks about: `s` is the final driver state returned next to the
result, `s.gtol` / `s.ftarget` the thresholds after their one-shot evaluation. -/
theorem thresholds (u : User α ε) (o : Oracles α δ) (c : Cfg α) (r : Result α) (s : St α)
    (h : minimize u o c = .ok (r, s)) :
    ThreshVal u.gtolFn c.gtol s.gtol ∧
    (match c.ftarget with
      | none => s.ftarget = none
      | some t => ∃ a, s.ftarget = some a ∧ ThreshVal u.ftargetFn t a) := by
  obtain ⟨i, is, hcase⟩ := minimize_cases u o c r s h
  have key : s.gtol = i.gtol ∧ s.ftarget = i.ftarget := by
    rcases hcase with ⟨-, he⟩ | ⟨-, s0, s1, ps, ls, hs, hr⟩
    · unfold earlyResult at he
      split at he <;> (injection he with _ h2; subst h2; exact ⟨rfl, rfl⟩)
    · subst hs
      have : (classify c s1).gtol = s1.gtol ∧ (classify c s1).ftarget = s1.ftarget := by
        unfold classify; repeat' split
        all_goals exact ⟨rfl, rfl⟩
      rw [this.1, this.2, ls.env.gtol, ls.env.ftarget, ps.gtol, ps.ftarget]
      exact ⟨rfl, rfl⟩
  rw [key.1, key.2]
  exact ⟨is.gtol, is.ftarget⟩

/-- **C04 (2)** the reason is true of the returned state:
* a projected-gradient message implies `projgr(x, jac) ≤ gtol`,
* a target message implies `fun / scale ≤ ftarget`,
* an iteration-limit message implies `nit ≥ maxiter`,
* an evaluation-limit message implies `nfev ≥ maxfun`,
* a user-callback message implies the callback returned `True` on one of the states it was given. -/
theorem report_truthful (u : User α ε) (o : Oracles α δ) (c : Cfg α) (r : Result α) (s : St α)
    (h : minimize u o c = .ok (r, s)) :
    (r.msg = .pgtol → ¬ s.gtol < projgr r.x r.jac c.lb c.ub) ∧
    (r.msg = .target → ∃ t, s.ftarget = some t ∧ ¬ t < r.f / s.sf.scale) ∧
    (r.msg = .iterLimit → c.maxiter ≤ r.nit) ∧
    (r.msg = .evalLimit → c.maxfun ≤ r.nfev) ∧
    (r.msg = .userCallback → ∃ cb ∈ s.cbStates, u.callback cb = .ok true) := by
  have tr : ∀ (f : α) (ft : Option α), targetReached f ft = true → ∃ t, ft = some t ∧ ¬ t < f := by
    intro f ft hh
    cases ft with
    | none => simp [targetReached] at hh
    | some t => exact ⟨t, rfl, by simpa [targetReached] using hh⟩
  obtain ⟨i, is, hcase⟩ := minimize_cases u o c r s h
  rcases hcase with ⟨ht, he⟩ | ⟨-, s0, s1, ps, ls, hs, hr⟩
  · -- the start already satisfies the target
    unfold earlyResult at he
    split at he
    · rename_i ck hck
      injection he with h1 h2; subst h1; subst h2
      refine ⟨by simp, fun _ => ?_, by simp, by simp, by simp⟩
      -- on a restart the first objective value is the checkpoint's
      have hf : i.f0 = ck.f := is.f0_ck ck hck
      simpa [Init.state, hf] using tr _ _ ht
    · injection he with h1 h2; subst h1; subst h2
      refine ⟨by simp [St.result], fun _ => ?_, by simp [St.result], by simp [St.result],
        by simp [St.result]⟩
      simpa [Init.state, St.result] using tr _ _ ht
  · subst hr; subst hs
    simp only [St.result, classify]
    split
    · rename_i h1
      exact ⟨fun _ => by simpa using h1, by simp, by simp, by simp, by simp⟩
    · split
      · rename_i h2
        exact ⟨by simp, by simp, fun _ => h2, by simp, by simp⟩
      · split
        · rename_i h3
          exact ⟨by simp, by simp, by simp, fun _ => h3, by simp⟩
        · refine ⟨fun hm => ?_, fun hm => ?_, fun hm => ?_, fun hm => ?_, fun hm => ?_⟩
          · have := ls.inv.task_succ
            rcases ls.exit with hg | hb | hn
            · have hsucc : s1.success = true := by
                rename_i h1 h2 h3
                simp only [guard, Bool.and_eq_false_iff, decide_eq_false_iff_not,
                  Bool.not_eq_false'] at hg
                rcases hg with ((hg | hg) | hg) | hg
                · simp at h1; exact absurd h1 hg
                · omega
                · omega
                · exact hg
              rcases ls.inv.succ_task hsucc with ht | ht | ht <;> rw [ht] at hm <;> cases hm
            · rcases hb with ht | ht | ht <;> rw [ht] at hm <;> cases hm
            · rename_i h1 h2 h3; omega
          · exact tr _ _ (ls.inv.target_true hm)
          · have hsucc := ls.inv.task_succ
            rcases ls.exit with hg | hb | hn
            · have hsucc : s1.success = true := by
                rename_i h1 h2 h3
                simp only [guard, Bool.and_eq_false_iff, decide_eq_false_iff_not,
                  Bool.not_eq_false'] at hg
                rcases hg with ((hg | hg) | hg) | hg
                · simp at h1; exact absurd h1 hg
                · omega
                · omega
                · exact hg
              rcases ls.inv.succ_task hsucc with ht | ht | ht <;> rw [ht] at hm <;> cases hm
            · rcases hb with ht | ht | ht <;> rw [ht] at hm <;> cases hm
            · rename_i h1 h2 h3; omega
          · rcases ls.exit with hg | hb | hn
            · have hsucc : s1.success = true := by
                rename_i h1 h2 h3
                simp only [guard, Bool.and_eq_false_iff, decide_eq_false_iff_not,
                  Bool.not_eq_false'] at hg
                rcases hg with ((hg | hg) | hg) | hg
                · simp at h1; exact absurd h1 hg
                · omega
                · omega
                · exact hg
              rcases ls.inv.succ_task hsucc with ht | ht | ht <;> rw [ht] at hm <;> cases hm
            · rcases hb with ht | ht | ht <;> rw [ht] at hm <;> cases hm
            · rename_i h1 h2 h3; omega
          · exact ls.inv.cb_true hm

/-- **C04 (3)** `success` is `False` exactly for abnormal line-search termination. -/
theorem success_iff (u : User α ε) (o : Oracles α δ) (c : Cfg α) (r : Result α) (s : St α)
    (h : minimize u o c = .ok (r, s)) : r.success = false ↔ r.msg = .abnormal := by
  obtain ⟨i, -, hcase⟩ := minimize_cases u o c r s h
  rcases hcase with ⟨-, he⟩ | ⟨-, s0, s1, ps, ls, hs, hr⟩
  · unfold earlyResult at he
    split at he <;> (injection he with h1 _; subst h1; simp [St.result])
  · subst hr; subst hs
    simp only [St.result, classify]
    split
    · simp
    · split
      · simp
      · split
        · simp
        · rename_i h1 h2 h3
          rcases ls.exit with hg | hb | hn
          · have hsucc : s1.success = true := by
              simp only [guard, Bool.and_eq_false_iff, decide_eq_false_iff_not,
                Bool.not_eq_false'] at hg
              rcases hg with ((hg | hg) | hg) | hg
              · simp at h1; exact absurd h1 hg
              · omega
              · omega
              · exact hg
            constructor
            · intro hf; rw [hsucc] at hf; cases hf
            · intro ha; rw [ls.inv.abn ha] at hsucc; cases hsucc
          · rcases hb with ht | ht | ht
            · exact ⟨fun _ => ht, fun _ => ls.inv.abn ht⟩
            · have := ls.inv.task_succ (Or.inl ht)
              exact ⟨(fun hf => by rw [this] at hf; cases hf), (fun ha => by rw [ht] at ha; cases ha)⟩
            · have := ls.inv.task_succ (Or.inr (Or.inl ht))
              exact ⟨(fun hf => by rw [this] at hf; cases hf), (fun ha => by rw [ht] at ha; cases ha)⟩
          · omega

/-- **C04 (4)** `nit ≤ max(maxiter, nit at restart)`. -/
theorem nit_bound (u : User α ε) (o : Oracles α δ) (c : Cfg α) (r : Result α) (s : St α)
    (h : minimize u o c = .ok (r, s)) : r.nit ≤ max c.maxiter (nit0 c) := by
  obtain ⟨i, is, hcase⟩ := minimize_cases u o c r s h
  rcases hcase with ⟨-, he⟩ | ⟨-, s0, s1, ps, ls, hs, hr⟩
  · unfold earlyResult at he
    split at he
    · rename_i ck hck
      injection he with h1 _; subst h1
      simp only [nit0, hck]; exact Nat.le_max_right _ _
    · injection he with h1 _; subst h1
      simp only [St.result, Init.state]; rw [is.nit]; exact Nat.le_max_right _ _
  · subst hr; subst hs
    have : (classify c s1).nit = s1.nit := by
      unfold classify; repeat' split
      all_goals rfl
    simp only [St.result, this]
    have := ls.nit_le
    rw [ps.nit, is.nit] at this
    exact this

/-- **C04 (5)** with a callable gradient `nfev ≤ max(maxfun, n0) + 1`, `n0` being 1 or the
checkpoint's count. -/
theorem nfev_bound (u : User α ε) (o : Oracles α δ) (c : Cfg α) (r : Result α) (s : St α)
    (hm : c.mode = .callable) (h : minimize u o c = .ok (r, s)) :
    r.nfev ≤ max c.maxfun (nfev0 c) + 1 := by
  obtain ⟨i, is, hcase⟩ := minimize_cases u o c r s h
  rcases hcase with ⟨-, he⟩ | ⟨-, s0, s1, ps, ls, hs, hr⟩
  · unfold earlyResult at he
    split at he
    · rename_i ck hck
      injection he with h1 _; subst h1
      simp only [nfev0, hck]
      have := Nat.le_max_right c.maxfun ck.nfev; omega
    · injection he with h1 _; subst h1
      simp only [St.result, Init.state]; rw [is.nfev]
      have := Nat.le_max_right c.maxfun (nfev0 c); omega
  · subst hr; subst hs
    have : (classify c s1).sf = s1.sf := by
      unfold classify; repeat' split
      all_goals rfl
    simp only [St.result, this]
    have hm0 : s0.sf.mode = .callable := by rw [ps.mode, is.mode, hm]
    have hmi : i.sf.mode = .callable := by rw [is.mode, hm]
    have := ls.nfev_le hm0
    rw [ps.nfev_eq hmi, is.nfev] at this
    exact this

/-- **C04 (6)** callable `ftarget` / `gtol` are invoked exactly once (and never when they are
plain numbers): the final log holds exactly that many entries of each kind. -/
theorem criteria_called_once (u : User α ε) (o : Oracles α δ) (c : Cfg α) (r : Result α)
    (s : St α) (h : minimize u o c = .ok (r, s)) :
    countK .gtol s.sf.log = (if isCallableT c.gtol then 1 else 0) ∧
    countK .ftarget s.sf.log =
      (match c.ftarget with | some t => (if isCallableT t then 1 else 0) | none => 0) := by
  obtain ⟨i, is, hcase⟩ := minimize_cases u o c r s h
  rcases hcase with ⟨-, he⟩ | ⟨-, s0, s1, ps, ls, hs, hr⟩
  · have : s.sf = i.sf := by
      unfold earlyResult at he
      split at he <;> (injection he with _ h2; subst h2; rfl)
    rw [this]; exact ⟨is.n_gtol, is.n_ftarget⟩
  · subst hs
    have : (classify c s1).sf = s1.sf := by
      unfold classify; repeat' split
      all_goals rfl
    rw [this]
    have hl := countK_ext (LogExt.trans ps.log (ls.log.mono (fun _ h => h.notThresh)))
    rw [hl.1, hl.2]
    exact ⟨is.n_gtol, is.n_ftarget⟩

/-! ### Non-vacuity: a concrete run (over `ℤ`) that iterates, and one that restarts with
`maxiter` below the checkpoint's `nit`. -/
section nonvacuous

instance : FloatLike ℤ := ⟨id, fun _ => true⟩

/-- objective `x·x`, gradient `2x`, a callback that never stops, thresholds as callables -/
def uZ : User ℤ String where
  F x := .ok (dot x x)
  Gr x := .ok (smul 2 x)
  fdPts _ _ := []
  fdComb _ _ _ := []
  callback _ := .ok false
  update i := .ok ⟨i.f0, i.f0Old, i.grad, i.G⟩
  scaler _ _ := .ok 1
  ftargetFn _ := .ok (-5)
  gtolFn _ := .ok 0

/-- kernels: `xbar = 0`; stepper: propose the step 1, then report convergence -/
def oZ : Oracles ℤ Nat where
  xbar x _ _ := x.map fun _ => 0
  dcNew _ _ _ _ _ _ := 0
  dcIter n stp _ _ _ := if n = 0 then (1, stp, .fg) else (n + 1, stp, .conv)

def cZ : Cfg ℤ :=
  { x0 := [3, -4], lb := [-10, -10], ub := [10, 10], mode := .callable, maxcor := 3, maxiter := 5,
    maxfun := 20, maxls := 4, ftol := 0, gtol := .callable, ftarget := some .callable, maxStep := 100,
    ftolLS := 0, gtolLS := 1, xtolLS := 0, epsSY := 0, hasCallback := true, hasUpdate := false,
    hasScaler := false, checkpoint := none }

example : ∃ r s, minimize uZ oZ cZ = .ok (r, s) ∧ r.msg = .pgtol ∧ r.nit = 1 ∧ r.nfev = 2 ∧
    r.x = [0, 0] ∧ s.cbStates.length = 1 := by
  refine ⟨_, _, rfl, ?_⟩
  decide

/-- a restart whose checkpoint has `nit = 7 > maxiter = 5` -/
def ckZ : Result ℤ :=
  { x := [3, -4], f := 25, jac := [6, -8], nfev := 9, njev := 9, nit := 7, status := 1,
    msg := .iterLimit, success := true, sk := [], yk := [] }

example : ∃ r s, minimize uZ oZ { cZ with checkpoint := some ckZ } = .ok (r, s) ∧
    r.msg = .iterLimit ∧ r.nit = 7 ∧ r.nfev = 9 := by
  refine ⟨_, _, rfl, ?_⟩
  decide

end nonvacuous

end Lbfgsb.C04
