/-
  C06 at run level — "a restart that performs no iteration returns the same correction pairs".

  Ordered field (exact arithmetic), about the driver model `minimize`: restarted from a checkpoint
  `ck` with `maxiter ≤ ck.nit` (so the loop guard fails at once), without scaler (finding K1),
  update function or target, the run returns `ck`'s iteration count, the (clipped) start, and as
  correction pairs the most recent `min(m, maxcor)` pairs of the checkpoint, in order, for `sk` and
  `yk` alike — all of them when `maxcor` is not reduced.
  Hypothesis `hcurv`: the re-inserted current point passes the curvature test against the rebuilt
  predecessor — in exact arithmetic the very test the pair passed when it was stored (in floating
  point the rebuilt predecessor is rounded: finding K2; when the checkpoint's `x` is not the end
  of its history the test is a different one: finding K4).
-/
import LbfgsbVerif.Proofs.Restart
import LbfgsbVerif.Props.C06
import LbfgsbVerif.Proofs.C11

namespace Lbfgsb.C06
open Lbfgsb
variable {K ε δ : Type} [Field K] [LinearOrder K] [IsStrictOrderedRing K]
attribute [local instance] fieldFloatLike

theorem restoreXG_length_pos (x jac : Vec K) (sk yk : List (Vec K)) (maxcor : Nat) (hne : sk ≠ []) :
    (restoreXG x jac sk yk maxcor).1.length > 0 := by
  have hne' : sk.isEmpty = false := by cases sk <;> simp_all
  simp only [restoreXG, hne', Bool.false_eq_true, if_false]
  rw [pushBounded_eq maxcor _ [] (by simp)]
  have : 0 < sk.length := List.length_pos_iff.2 hne
  simp [revCumsum_length]
  omega

/-- **C06 (run level)** a restart that performs no iteration returns the checkpoint's (most
recent) correction pairs. -/
theorem restart_noiter_same_pairs (u : User K ε) (o : Oracles K δ) (c : Cfg K) (ck : Result K)
    (hck : c.checkpoint = some ck) (hT : c.ftarget = none) (hS : c.hasScaler = false)
    (hU : c.hasUpdate = false) (hnit : c.maxiter ≤ ck.nit)
    (hs : AllLen (clip c.x0 c.lb c.ub).length ck.sk) (hy : AllLen ck.jac.length ck.yk)
    (hlen : ck.sk.length = ck.yk.length)
    (hcurv : ck.sk ≠ [] → curvOk (clip c.x0 c.lb c.ub) ck.jac
      (lastD (restoreXG (clip c.x0 c.lb c.ub) ck.jac ck.sk ck.yk c.maxcor).1)
      (lastD (restoreXG (clip c.x0 c.lb c.ub) ck.jac ck.sk ck.yk c.maxcor).2) c.epsSY = true)
    (r : Result K) (s : St K) (h : minimize u o c = .ok (r, s)) :
    r.sk = ck.sk.drop (ck.sk.length - c.maxcor) ∧ r.yk = ck.yk.drop (ck.yk.length - c.maxcor) ∧
      r.nit = ck.nit ∧ r.x = clip c.x0 c.lb c.ub := by
  obtain ⟨hx, hn, hsk, hyk⟩ := minimize_restart_noiter u o c ck hck hT hS hU (fun a => mul_one a) hnit r s h
  refine ⟨?_, ?_, hn, hx⟩
  · rw [hsk]
    by_cases hne : ck.sk = []
    · have : restoreXG (clip c.x0 c.lb c.ub) ck.jac ck.sk ck.yk c.maxcor = ([], []) := by
        simp [restoreXG, hne]
      rw [this, hne]
      simp [diffs]
    · rw [if_pos (restoreXG_length_pos _ _ _ _ _ hne)]
      exact (restore_keeps_most_recent _ ck.jac ck.sk ck.yk c.maxcor c.epsSY hs hy hlen hne (hcurv hne)).1
  · rw [hyk]
    by_cases hne : ck.sk = []
    · have : restoreXG (clip c.x0 c.lb c.ub) ck.jac ck.sk ck.yk c.maxcor = ([], []) := by
        simp [restoreXG, hne]
      have hyne : ck.yk = [] := by rw [hne] at hlen; exact List.length_eq_zero_iff.1 hlen.symm
      rw [this, hyne]
      simp [diffs]
    · rw [if_pos (restoreXG_length_pos _ _ _ _ _ hne)]
      exact (restore_keeps_most_recent _ ck.jac ck.sk ck.yk c.maxcor c.epsSY hs hy hlen hne (hcurv hne)).2.1

end Lbfgsb.C06

/-! ### Non-vacuity (ℚ): f(x) = ½|x|² on [−2,2]², a checkpoint after two iterations carrying two pairs,
restarted with `maxiter = 2 ≤ nit`: the hypotheses hold and the model run terminates normally. -/
namespace Lbfgsb.C06
open Lbfgsb
section nonvacuous
attribute [local instance] fieldFloatLike

def exUser : User ℚ Unit :=
  { F := fun x => .ok (dot x x / 2), Gr := fun x => .ok x, fdPts := fun _ _ => [], fdComb := fun x _ _ => x,
    callback := fun _ => .ok false, update := fun i => .ok ⟨i.f0, i.f0Old, i.grad, i.G⟩,
    scaler := fun _ _ => .ok 1, ftargetFn := fun _ => .ok 0, gtolFn := fun _ => .ok 0 }

def exOracles : Oracles ℚ Unit := { xbar := fun x _ _ => x, dcNew := fun _ _ _ _ _ _ => (), dcIter := fun _ s _ _ _ => ((), s, .error) }

def exCk : Result ℚ :=
  { x := [1 / 4, 1 / 4], f := 1 / 16, jac := [1 / 4, 1 / 4], nfev := 3, njev := 3, nit := 2, status := 1, msg := .iterLimit,
    success := true, sk := [[-1, -1], [-3 / 4, -3 / 4]], yk := [[-1, -1], [-3 / 4, -3 / 4]] }

def exCfg : Cfg ℚ :=
  { x0 := [1 / 4, 1 / 4], lb := [-2, -2], ub := [2, 2], mode := .callable, maxcor := 5, maxiter := 2, maxfun := 100, maxls := 20,
    ftol := 0, gtol := .const (1 / 1000), ftarget := none, maxStep := 100, ftolLS := 1 / 1000, gtolLS := 9 / 10, xtolLS := 1 / 10,
    epsSY := 0, hasCallback := false, hasUpdate := false, hasScaler := false, checkpoint := some exCk }

example : (minimize exUser exOracles exCfg).toBool = true := by decide +kernel

/-- the curvature hypothesis of the theorem holds on this instance -/
example : curvOk (clip exCfg.x0 exCfg.lb exCfg.ub) exCk.jac
    (lastD (restoreXG (clip exCfg.x0 exCfg.lb exCfg.ub) exCk.jac exCk.sk exCk.yk exCfg.maxcor).1)
    (lastD (restoreXG (clip exCfg.x0 exCfg.lb exCfg.ub) exCk.jac exCk.sk exCk.yk exCfg.maxcor).2) exCfg.epsSY = true := by
  decide +kernel

/-- … and the run returns the checkpoint's pairs -/
example : (match minimize exUser exOracles exCfg with | .ok (r, _) => decide (r.sk = exCk.sk ∧ r.yk = exCk.yk) | .error _ => false) = true := by
  decide +kernel

end nonvacuous
end Lbfgsb.C06
