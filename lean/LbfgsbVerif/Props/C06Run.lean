/-
  C06 at run level — "a restart that performs no iteration returns the same correction pairs".

  Ordered field (exact arithmetic), about the driver model `minimize`: restarted from a checkpoint
  `ck` with `maxiter ≤ ck.nit` (so the loop guard fails at once), without scaler (finding K1),
  update function or target, the run returns `ck`'s iteration count, the (clipped) start, and as
  correction pairs the most recent `min(m, maxcor)` pairs of the checkpoint, in order, for `sk` and
  `yk` alike — all of them when `maxcor` is not reduced.
  Hypothesis `hcurv`: the re-inserted current point passes the curvature test against the rebuilt
  predecessor — in exact arithmetic the very test the pair passed when it was stored (in floating
  point the rebuilt predecessor is rounded: finding K2; when the checkpoint's `x` is not the end
  of its history the test is a different one: finding K4).
-/
import LbfgsbVerif.Proofs.Restart
import LbfgsbVerif.Props.C06
import LbfgsbVerif.Proofs.C11

namespace Lbfgsb.C06
open Lbfgsb
variable {K ε δ : Type} [Field K] [LinearOrder K] [IsStrictOrderedRing K]
attribute [local instance] fieldFloatLike

theorem restoreXG_length_pos (x jac : Vec K) (sk yk : List (Vec K)) (maxcor : Nat) (hne : sk ≠ []) :
    (restoreXG x jac sk yk maxcor).1.length > 0 := by
  have hne' : sk.isEmpty = false := by cases sk <;> simp_all
  simp only [restoreXG, hne', Bool.false_eq_true, if_false]
  rw [pushBounded_eq maxcor _ [] (by simp)]
  have : 0 < sk.length := List.length_pos_iff.2 hne
  simp [revCumsum_length]
  omega

/-- **C06 (run level)** a restart that performs no iteration returns the checkpoint's (most
recent) correction pairs. -/
theorem restart_noiter_same_pairs (u : User K ε) (o : Oracles K δ) (c : Cfg K) (ck : Result K)
    (hck : c.checkpoint = some ck) (hT : c.ftarget = none) (hS : c.hasScaler = false)
    (hU : c.hasUpdate = false) (hnit : c.maxiter ≤ ck.nit)
    (hs : AllLen (clip c.x0 c.lb c.ub).length ck.sk) (hy : AllLen ck.jac.length ck.yk)
    (hlen : ck.sk.length = ck.yk.length)
    (hcurv : ck.sk ≠ [] → curvOk (clip c.x0 c.lb c.ub) ck.jac
      (lastD (restoreXG (clip c.x0 c.lb c.ub) ck.jac ck.sk ck.yk c.maxcor).1)
      (lastD (restoreXG (clip c.x0 c.lb c.ub) ck.jac ck.sk ck.yk c.maxcor).2) c.epsSY = true)
    (r : Result K) (s : St K) (h : minimize u o c = .ok (r, s)) :
    r.sk = ck.sk.drop (ck.sk.length - c.maxcor) ∧ r.yk = ck.yk.drop (ck.yk.length - c.maxcor) ∧
      r.nit = ck.nit ∧ r.x = clip c.x0 c.lb c.ub := by
  obtain ⟨hx, hn, hsk, hyk⟩ := minimize_restart_noiter u o c ck hck hT hS hU (fun a => mul_one a) hnit r s h
  refine ⟨?_, ?_, hn, hx⟩
  · rw [hsk]
    by_cases hne : ck.sk = []
    · have : restoreXG (clip c.x0 c.lb c.ub) ck.jac ck.sk ck.yk c.maxcor = ([], []) := by
        simp [restoreXG, hne]
      rw [this, hne]
      simp [diffs]
    · rw [if_pos (restoreXG_length_pos _ _ _ _ _ hne)]
      exact (restore_keeps_most_recent _ ck.jac ck.sk ck.yk c.maxcor c.epsSY hs hy hlen hne (hcurv hne)).1
  · rw [hyk]
    by_cases hne : ck.sk = []
    · have : restoreXG (clip c.x0 c.lb c.ub) ck.jac ck.sk ck.yk c.maxcor = ([], []) := by
        simp [restoreXG, hne]
      have hyne : ck.yk = [] := by rw [hne] at hlen; exact List.length_eq_zero_iff.1 hlen.symm
      rw [this, hyne]
      simp [diffs]
    · rw [if_pos (restoreXG_length_pos _ _ _ _ _ hne)]
      exact (restore_keeps_most_recent _ ck.jac ck.sk ck.yk c.maxcor c.epsSY hs hy hlen hne (hcurv hne)).2.1

end Lbfgsb.C06
