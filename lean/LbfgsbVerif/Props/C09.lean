/-
  C09 — subspace minimisation returns the box-truncated Newton point of the model.

  About the executable model `subspaceMin` (Model/Subspace.lean):
  * `none_free` (U): no free variable at the Cauchy point ⇒ the Cauchy point is returned;
  * `xbar_in_box` (U): the returned point is in the box, exactly (it is a `clip`);
  * `active_fixed` (U + the IEEE-exact laws `a·0 = 0`, `a + 0 = a`): a variable on a bound at
    the Cauchy point keeps its value;
  * `alpha_star_feasible` (F): every step `0 ≤ a ≤ α*` keeps `x_cp + a·d` in the box.
  About the algebra (F, Mathlib matrices, any field):
  * `smw_direction`: the direction the code computes through the small `2m × 2m` system
    `K v = ŴᵀR̂`, `K = M⁻¹ − θ⁻¹ŴᵀŴ`, `d̂ = −θ⁻¹(r̂ + θ⁻¹ Ŵ v)`, solves the reduced Newton
    system `(θI − Ŵ M Ŵᵀ) d̂ = −r̂` (Sherman–Morrison–Woodbury; the sign is the one the source
    comments on as missing in the paper) — under the exact-solve hypothesis `M · M⁻¹ = 1`.
  The remaining clauses (model value does not increase, descent direction, equality with the
  dense Newton solve numerically) are decided by the correspondence and the search.
-/
import LbfgsbVerif.Model.Subspace
import LbfgsbVerif.Proofs.Basic
import LbfgsbVerif.Proofs.C11
import Mathlib.Data.Matrix.Mul
import Mathlib.Tactic.Module
import Mathlib.Tactic.Abel
import Mathlib.Tactic.FieldSimp
import Mathlib.Algebra.Order.Field.Rat

namespace Lbfgsb.C09
open Lbfgsb

section U
variable {α : Type} [LinearOrder α] [Add α] [Sub α] [Mul α] [Div α] [Neg α] [OfNat α 0] [OfNat α 1]

/-- **C09 (1)** none free ⇒ `x̄ = x_cp`. -/
theorem none_free (i : SubIn α) (h : (freeMask i.xc i.lb i.ub).any id = false) :
    subspaceMin i = i.xc := by
  simp [subspaceMin, h]

theorem freeMask_length (xc lb ub : Vec α) (h1 : lb.length = xc.length) (h2 : ub.length = xc.length) :
    (freeMask xc lb ub).length = xc.length := by
  induction xc generalizing lb ub with
  | nil => simp [freeMask]
  | cons a as ih =>
    cases lb with
    | nil => simp at h1
    | cons l ls =>
      cases ub with
      | nil => simp at h2
      | cons u us =>
        simp only [freeMask, List.length_cons]
        rw [ih ls us (by simpa using h1) (by simpa using h2)]

/-- **C09 (2)** the returned point is in the box, exactly — whatever the memory and the
rounding: it is `x_cp` itself or the value of a `clip`. (Well-formed shapes: all vectors of
length `n`, `W` with `n` rows.) -/
theorem xbar_in_box (i : SubIn α) (hb : BoxOk i.lb i.ub) (hx : InBox i.lb i.ub i.xc)
    (hg : i.g.length = i.xc.length) (hxx : i.x.length = i.xc.length) (hW : i.W.length = i.xc.length) :
    InBox i.lb i.ub (subspaceMin i) := by
  obtain ⟨hxl, hul⟩ := inBox_length hx
  have hm := freeMask_length i.xc i.lb i.ub hxl.symm (by rw [hul, hxl])
  unfold subspaceMin
  simp only
  split
  · exact hx
  · apply clip_inBox hb
    simp only [vadd, vsub, smul, vzip_length', List.length_map, List.length_zip, hm, hg, hxx, hW,
      Nat.min_self]
    split <;> simp [vzip_length', List.length_zip, hm, hg, hxx, hW, hxl]

/-- a step along a masked direction followed by the clip leaves the masked-out coordinates of
a feasible point where they are -/
theorem masked_step (hmul0 : ∀ a : α, a * 0 = 0) (hadd0 : ∀ a : α, a + 0 = a)
    (xc d lb ub : Vec α) (mask : List Bool) (al : α) (hx : InBox lb ub xc) (j : Nat)
    (hj : mask[j]? = some false) :
    (clip (vadd xc (smul al ((d.zip mask).map fun (p : α × Bool) => if p.2 then p.1 else 0))) lb ub)[j]?
      = xc[j]? ∨ d.length ≤ j := by
  induction xc generalizing d lb ub mask j with
  | nil => left; simp [vadd, vzip, clip]
  | cons a as ih =>
    cases lb with
    | nil => cases ub <;> simp [InBox] at hx
    | cons l ls =>
      cases ub with
      | nil => simp [InBox] at hx
      | cons u us =>
        simp only [InBox] at hx
        cases d with
        | nil => right; simp
        | cons b bs =>
          cases mask with
          | nil => simp at hj
          | cons m ms =>
            cases j with
            | zero =>
              left
              simp only [List.getElem?_cons_zero, Option.some.injEq] at hj
              subst hj
              simp only [List.zip_cons_cons, List.map_cons, Bool.false_eq_true, if_false, smul,
                vadd, vzip, clip, List.getElem?_cons_zero, hmul0, hadd0]
              rw [clip1_of_mem hx.1.1 hx.1.2]
            | succ j' =>
              simp only [List.getElem?_cons_succ] at hj
              rcases ih bs ls us ms hx.2 j' hj with h | h
              · left
                simpa [smul, vadd, vzip, clip] using h
              · right
                simpa using h

/-- **C09 (3)** a variable that is on a bound at the Cauchy point is not moved by the subspace
step (given `a·0 = 0`, `a + 0 = a`, both exact in IEEE arithmetic for finite `a`). -/
theorem active_fixed (hmul0 : ∀ a : α, a * 0 = 0) (hadd0 : ∀ a : α, a + 0 = a) (i : SubIn α)
    (hx : InBox i.lb i.ub i.xc) (j : Nat) (hj : (freeMask i.xc i.lb i.ub)[j]? = some false)
    (hg : i.g.length = i.xc.length) (hxx : i.x.length = i.xc.length) (hW : i.W.length = i.xc.length) :
    (subspaceMin i)[j]? = i.xc[j]? := by
  obtain ⟨hxl, hul⟩ := inBox_length hx
  have hm := freeMask_length i.xc i.lb i.ub hxl.symm (by rw [hul, hxl])
  have hjlt : j < i.xc.length := by
    rw [← hm]
    by_contra hge
    rw [List.getElem?_eq_none (by omega)] at hj
    cases hj
  unfold subspaceMin
  simp only
  split
  · rfl
  · rcases masked_step hmul0 hadd0 i.xc _ i.lb i.ub (freeMask i.xc i.lb i.ub) _ hx j hj with h | h
    · exact h
    · exfalso
      revert h
      simp only [vadd, vsub, smul, vzip_length', List.length_map, List.length_zip, hm, hg, hxx, hW,
        Nat.min_self, not_le]
      split <;> simp [vzip_length', List.length_zip, hm, hg, hxx, hW, hjlt]

end U

section OF
variable {α : Type} [Field α] [LinearOrder α] [IsStrictOrderedRing α]

theorem feasible_of_le_cand (xc d lb ub : Vec α) (mask : List Bool) (hx : InBoxF lb ub xc)
    (hd : d.length = xc.length) (hm : mask.length = xc.length)
    (a : α) (h0 : 0 ≤ a)
    (ha : ∀ t ∈ alphaStar.cand xc ((d.zip mask).map fun (p : α × Bool) => if p.2 then p.1 else 0) lb ub mask, a ≤ t) :
    InBoxF lb ub (vadd xc (smul a ((d.zip mask).map fun (p : α × Bool) => if p.2 then p.1 else 0))) := by
  induction xc generalizing d lb ub mask with
  | nil =>
    cases lb <;> cases ub <;> simp_all [InBoxF, vadd, vzip]
  | cons xi xs ih =>
    cases d with
    | nil => simp at hd
    | cons di ds =>
      cases mask with
      | nil => simp at hm
      | cons m ms =>
      cases lb with
      | nil => cases ub <;> simp [InBoxF] at hx
      | cons li ls =>
        cases ub with
        | nil => simp [InBoxF] at hx
        | cons ui us =>
          simp only [InBoxF] at hx
          obtain ⟨⟨hl, hu⟩, hrest⟩ := hx
          have hds : ds.length = xs.length := by simpa using hd
          have hms : ms.length = xs.length := by simpa using hm
          have hrec : ∀ t ∈ alphaStar.cand xs ((ds.zip ms).map fun (p : α × Bool) => if p.2 then p.1 else 0) ls us ms, a ≤ t := by
            intro t ht
            apply ha
            simp only [List.zip_cons_cons, List.map_cons, alphaStar.cand]
            split_ifs <;> first | exact ht | exact List.mem_cons_of_mem _ ht
          have ihh := ih ds ls us ms hrest hds hms hrec
          simp only [List.zip_cons_cons, List.map_cons, vadd, smul, vzip, InBoxF]
          refine ⟨?_, ihh⟩
          by_cases hz : (if m then di else 0) = 0
          · rw [hz]; simp [hl, hu]
          · have hmt : m = true := by
              cases m
              · simp at hz
              · rfl
            subst hmt
            simp only [if_true] at hz ⊢
            have hmem : (if 0 < di then (ui - xi) / di else (li - xi) / di)
                ∈ alphaStar.cand (xi :: xs) (((di :: ds).zip (true :: ms)).map fun (p : α × Bool) => if p.2 then p.1 else 0)
                    (li :: ls) (ui :: us) (true :: ms) := by
              simp only [List.zip_cons_cons, List.map_cons, alphaStar.cand, if_true]
              have : feq di 0 = false := by
                simp only [feq, Bool.and_eq_false_iff, Bool.not_eq_false', decide_eq_true_eq]
                rcases lt_or_gt_of_ne hz with h | h
                · left; exact h
                · right; exact h
              simp [this]
            have hat := ha _ hmem
            rcases lt_or_gt_of_ne hz with hneg | hpos
            · have hnp : ¬ (0 < di) := not_lt.2 (le_of_lt hneg)
              simp only [hnp, if_false] at hat
              have h1 : a * di ≥ li - xi := by
                have := (le_div_iff_of_neg hneg).1 hat
                linarith
              have h2 : a * di ≤ 0 := mul_nonpos_of_nonneg_of_nonpos h0 (le_of_lt hneg)
              constructor <;> linarith
            · simp only [hpos, if_true] at hat
              have h1 : a * di ≤ ui - xi := (le_div_iff₀ hpos).1 hat
              have h2 : 0 ≤ a * di := mul_nonneg h0 (le_of_lt hpos)
              constructor <;> linarith

/-- **C09 (4)** (exact arithmetic) `α* ≤ 1`, and every step `0 ≤ a ≤ α*` along the masked
direction keeps `x_cp + a·d̂` inside the box: the final `clip` is the identity in exact
arithmetic, and only absorbs rounding in floating point. -/
theorem alpha_star_feasible (xc d lb ub : Vec α) (mask : List Bool) (hx : InBoxF lb ub xc)
    (hd : d.length = xc.length) (hm : mask.length = xc.length) (a : α) (h0 : 0 ≤ a)
    (ha : a ≤ alphaStar xc ((d.zip mask).map fun (p : α × Bool) => if p.2 then p.1 else 0) lb ub mask) :
    InBoxF lb ub (vadd xc (smul a ((d.zip mask).map fun (p : α × Bool) => if p.2 then p.1 else 0))) ∧
      alphaStar xc ((d.zip mask).map fun (p : α × Bool) => if p.2 then p.1 else 0) lb ub mask ≤ 1 := by
  obtain ⟨h1, h2⟩ := foldl_fmin_le
    (alphaStar.cand xc ((d.zip mask).map fun (p : α × Bool) => if p.2 then p.1 else 0) lb ub mask) (1 : α)
  exact ⟨feasible_of_le_cand xc d lb ub mask hx hd hm a h0 (fun t ht => le_trans ha (h2 t ht)), h1⟩

example : alphaStar ([0, 1] : Vec ℚ) [2, 0] [-1, -1] [1, 1] [true, false] = 1 / 2 := by
  decide +kernel

end OF

section F
open Matrix
variable {t k : Type} [Fintype t] [Fintype k] [DecidableEq t] [DecidableEq k]
variable {K : Type} [Field K]

/-- **C09 (F) — Sherman–Morrison–Woodbury direction.** -/
theorem smw_direction (W : Matrix t k K) (M Minv : Matrix k k K) (hM : M * Minv = 1)
    (θ : K) (hθ : θ ≠ 0) (r : t → K) (v : k → K)
    (hK : (Minv - (1 / θ) • (Wᵀ * W)) *ᵥ v = Wᵀ *ᵥ r) :
    (θ • (1 : Matrix t t K) - W * M * Wᵀ) *ᵥ (-(1 / θ) • (r + (1 / θ) • (W *ᵥ v))) = -r := by
  -- from the small system: v = M Wᵀ r + θ⁻¹ M WᵀW v
  have h1 : Minv *ᵥ v = Wᵀ *ᵥ r + (1 / θ) • (Wᵀ *ᵥ (W *ᵥ v)) := by
    have := hK
    rw [sub_mulVec, smul_mulVec, ← mulVec_mulVec] at this
    rw [← this]; abel
  have h2 : v = M *ᵥ (Wᵀ *ᵥ r) + (1 / θ) • (M *ᵥ (Wᵀ *ᵥ (W *ᵥ v))) := by
    have := congrArg (M *ᵥ ·) h1
    simp only [mulVec_mulVec, hM, one_mulVec, mulVec_add, mulVec_smul] at this
    simpa [mulVec_mulVec] using this
  have h3 : W *ᵥ v = W *ᵥ (M *ᵥ (Wᵀ *ᵥ r)) + (1 / θ) • (W *ᵥ (M *ᵥ (Wᵀ *ᵥ (W *ᵥ v)))) := by
    conv_lhs => rw [h2]
    rw [mulVec_add, mulVec_smul]
  -- expand the left-hand side
  have e1 : (W * M * Wᵀ) *ᵥ r = W *ᵥ (M *ᵥ (Wᵀ *ᵥ r)) := by
    simp [mulVec_mulVec, Matrix.mul_assoc]
  have e2 : (W * M * Wᵀ) *ᵥ (W *ᵥ v) = W *ᵥ (M *ᵥ (Wᵀ *ᵥ (W *ᵥ v))) := by
    simp [mulVec_mulVec, Matrix.mul_assoc]
  rw [mulVec_smul, mulVec_add, mulVec_smul, sub_mulVec, sub_mulVec, smul_mulVec, smul_mulVec,
    one_mulVec, one_mulVec, e1, e2]
  generalize W *ᵥ (M *ᵥ (Wᵀ *ᵥ r)) = p at h3 ⊢
  generalize W *ᵥ (M *ᵥ (Wᵀ *ᵥ (W *ᵥ v))) = q at h3 ⊢
  generalize W *ᵥ v = u at h3 ⊢
  rw [h3]
  match_scalars <;> field_simp <;> ring

end F

end Lbfgsb.C09
