/-
  C02 (entry condition) — what `get_bounds` accepts is a well-formed box containing the start:
  the hypotheses `Ctx2.box`, `Ctx2.n` and "x0 feasible" under which the run-level theorems are
  stated are established by the package's own validation (model: Model/Bounds.lean, compared with
  `lbfgsb.base.get_bounds` on generated valid and malformed inputs by harness/props/c02.py).
  Level U (any order; with NaN read as "no comparison holds", as in NumPy).
-/
import LbfgsbVerif.Model.Bounds
import LbfgsbVerif.Proofs.Basic

namespace Lbfgsb.C02
open Lbfgsb
variable {α : Type} [LinearOrder α]

theorem anyGt_false_boxOk (lb ub : Vec α) (hl : lb.length = ub.length) (h : anyGt lb ub = false) :
    BoxOk lb ub := by
  induction lb generalizing ub with
  | nil => cases ub <;> simp_all [BoxOk]
  | cons l ls ih =>
    cases ub with
    | nil => simp at hl
    | cons u us =>
      simp only [anyGt, Bool.or_eq_false_iff, decide_eq_false_iff_not] at h
      exact ⟨h.1, ih us (by simpa using hl) h.2⟩

theorem anyGt_false_inBox (lb ub x : Vec α) (h1 : lb.length = x.length) (h2 : ub.length = x.length)
    (ha : anyGt lb x = false) (hb : anyGt x ub = false) : InBox lb ub x := by
  induction x generalizing lb ub with
  | nil =>
    cases lb <;> cases ub <;> simp_all [InBox]
  | cons p ps ih =>
    cases lb with
    | nil => simp at h1
    | cons l ls =>
      cases ub with
      | nil => simp at h2
      | cons u us =>
        simp only [anyGt, Bool.or_eq_false_iff, decide_eq_false_iff_not] at ha hb
        exact ⟨⟨ha.1, hb.1⟩, ih ls us (by simpa using h1) (by simpa using h2) ha.2 hb.2⟩

/-- **C02 (0)** an accepted call: non-empty start, bounds of its length, `lb ≤ ub`, start inside. -/
theorem getBounds_ok (negInf posInf : α) (x0 : Vec α) (bounds : Option (List (Option α × Option α)))
    (lb ub : Vec α) (h : getBounds negInf posInf x0 bounds = .ok (lb, ub)) :
    x0 ≠ [] ∧ lb.length = x0.length ∧ ub.length = x0.length ∧ BoxOk lb ub ∧ InBox lb ub x0 := by
  unfold getBounds at h
  split at h
  · cases h
  · rename_i hne
    dsimp only at h
    generalize boundsOrFree x0 bounds = b at h
    split at h
    · cases h
    · rename_i hlen
      split at h
      · cases h
      · rename_i hgt
        split at h
        · cases h
        · rename_i hout
          simp only [Except.ok.injEq, Prod.mk.injEq] at h
          obtain ⟨h1, h2⟩ := h
          have hlen' : b.length = x0.length := Classical.not_not.1 hlen
          have hl : lb.length = x0.length := by rw [← h1]; simp [oldBoundToNew, hlen']
          have hu : ub.length = x0.length := by rw [← h2]; simp [oldBoundToNew, hlen']
          simp only [Bool.or_eq_true, not_or, Bool.not_eq_true] at hout
          rw [h1, h2] at hgt hout
          refine ⟨fun h0 => hne (by rw [h0]; rfl), hl, hu,
            anyGt_false_boxOk lb ub (by rw [hl, hu]) (by simpa using hgt),
            anyGt_false_inBox lb ub x0 hl hu hout.1 hout.2⟩

/-- the error branches, in the order of the source -/
theorem getBounds_empty (negInf posInf : α) (bounds : Option (List (Option α × Option α))) :
    getBounds negInf posInf ([] : Vec α) bounds = .error .emptyX := rfl

end Lbfgsb.C02
