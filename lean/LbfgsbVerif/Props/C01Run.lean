/-
  C01 — run level: every line search of a fresh run of the COMPLETE model (no update function, no scaler) starts along a
  descent direction, as long as the Fortran floor on `f''` is inactive.

  `DInvS` collects what the iteration-level theorem (`descent_from_memory_invariant`, Props/C01Curv) needs of a loop state: the
  points and gradients of the history have the length of `x`, consecutive pairs passed the curvature test, the snapshot of the
  matrices is the history (or "no pair"), the wrapper is coherent, `x` is in the box. `fresh_dinv` establishes it for the state a
  fresh run enters its loop with, `iterBody_dinv` carries it through ANY pass of the loop body (accepted or rejected pair, failed
  line search with memory reset, stop tests, callbacks), `reach_dinv` to every loop-head state; `run_direction_descent` is the
  consequence: at every such state where the loop goes on (projected gradient above `gtol ≥ 0`), the direction `x̄ − x` handed to
  the line search satisfies `gᵀ(x̄ − x) < 0`.
-/
import LbfgsbVerif.Props.C01Curv
import LbfgsbVerif.Props.C06Inv
import LbfgsbVerif.Proofs.MemCurv

set_option linter.unusedSectionVars false

namespace Lbfgsb.C01
open Lbfgsb Matrix
variable {K ε δ : Type} [Field K] [LinearOrder K] [IsStrictOrderedRing K]
attribute [local instance] fieldFloatLike

/-- what the iteration-level descent theorem needs of a loop state -/
structure DInvS (u : User K ε) (c : Cfg K) (s : St K) : Prop where
  xlen : s.x.length = c.lb.length
  glen : s.g.length = s.x.length
  lenX : AllLen s.x.length s.X
  lenG : AllLen s.x.length s.G
  hlen : s.X.length = s.G.length
  pos : s.X ≠ []
  chain : CurvChain c.epsSY s.X s.G
  mats : s.mats = if s.X.length > 1 then some (s.X, s.G) else none
  coh : Coh u.toSFUser s.sf
  sf_mode : s.sf.mode = c.mode
  sf_lb : s.sf.lb = c.lb
  sf_ub : s.sf.ub = c.ub
  sf_scale : s.sf.scale = 1
  inbox : clip s.x c.lb c.ub = s.x
  ftarget : s.ftarget = none

/-- the callback changes nothing the invariant speaks about -/
theorem doCallback_frame (u : User K ε) (c : Cfg K) (s s2 : St K) (h : doCallback u c s = .ok s2) :
    ∃ lg cbs t su, s2 = { s with sf := { s.sf with log := lg }, cbStates := cbs, task := t, success := su } := by
  unfold doCallback at h
  split at h
  · simp only [bind, Except.bind] at h
    split at h
    · simp at h
    · rename_i b hb
      simp only [pure, Except.pure, Except.ok.injEq] at h
      split at h
      · exact ⟨_, _, _, _, h.symm⟩
      · exact ⟨_, _, s.task, s.success, h.symm⟩
  · simp only [pure, Except.pure, Except.ok.injEq] at h
    exact ⟨s.sf.log, s.cbStates, s.task, s.success, by rw [← h]⟩

theorem memStep_rej (c : Cfg K) (s : St K) (hU : c.hasUpdate = false)
    (h : curvOk s.x s.g (lastD s.X) (lastD s.G) c.epsSY = false) : memStep c s = s := by
  unfold memStep updateMats
  simp [h, hU]

theorem lastD_mem (l : List (Vec K)) (h : l ≠ []) : lastD l ∈ l := by
  unfold lastD
  rw [List.getLastD_eq_getLast?, List.getLast?_eq_some_getLast h]
  exact List.getLast_mem h

open C06 in
/-- **any pass of the loop body preserves the invariant** -/
theorem iterBody_dinv (u : User K ε) (o : Oracles K δ) (c : Cfg K) (hU : c.hasUpdate = false) (hm : 1 ≤ c.maxcor)
    (hbox : BoxOk c.lb c.ub) (hgl : GradLen u c) (s s' : St K) (flow : Flow) (hi : DInvS u c s)
    (hxb : (o.xbar s.x s.g s.mats).length = s.x.length)
    (h : iterBody u o c s = .ok (s', flow)) : DInvS u c s' := by
  unfold iterBody at h
  simp only [bind, Except.bind] at h
  split at h
  · simp at h
  · rename_i r hr
    obtain ⟨sfL, stp?, olog⟩ := r
    dsimp only at h
    have ls := lineSearch_sum u o c s.x s.f s.g _ s.nit s.sf sfL _ _ olog stp? hi.coh hr
    have hmode : sfL.mode = c.mode := by rw [ls.mode, hi.sf_mode]
    have hlb : sfL.lb = c.lb := by rw [ls.lb_eq, hi.sf_lb]
    have hub : sfL.ub = c.ub := by rw [ls.ub_eq, hi.sf_ub]
    have hsc : sfL.scale = 1 := by rw [ls.scale, hi.sf_scale]
    cases stp? with
    | none =>
      simp only [pure, Except.pure, Except.ok.injEq] at h
      unfold iterFail at h
      dsimp only at h
      split at h
      · simp only [Prod.mk.injEq] at h
        rw [← h.1]
        exact ⟨hi.xlen, hi.glen, hi.lenX, hi.lenG, hi.hlen, hi.pos, hi.chain, hi.mats, ls.coh, hmode, hlb, hub, hsc,
          hi.inbox, hi.ftarget⟩
      · simp only [Prod.mk.injEq] at h
        rw [← h.1]
        refine ⟨hi.xlen, hi.glen, ?_, ?_, rfl, by simp, by simp [CurvChain], by simp, ls.coh, hmode, hlb, hub, hsc,
          hi.inbox, hi.ftarget⟩
        · intro v hv
          simp only [List.mem_singleton] at hv
          rw [hv]; exact hi.lenX _ (lastD_mem _ hi.pos)
        · intro v hv
          simp only [List.mem_singleton] at hv
          rw [hv]
          exact hi.lenG _ (lastD_mem _ (by intro e; have := hi.hlen; rw [e] at this; exact hi.pos (List.length_eq_zero_iff.mp this)))
    | some stp =>
      simp only at h
      unfold iterStep at h
      simp only [bind, Except.bind] at h
      split at h
      · simp at h
      · rename_i e he
        obtain ⟨es, -, g0, hg0, hgv⟩ := funAndGrad_sum ls.coh he
        generalize hx' : trial s.x (vsub (o.xbar s.x s.g s.mats) s.x) c.lb c.ub stp = x' at *
        have hx'len : x'.length = s.x.length := by
          rw [← hx']; exact trial_length _ _ _ _ _ (by simp [vsub, vzip_length', hxb])
        have hlb' : e.1.lb = c.lb := by rw [es.lb, hlb]
        have hub' : e.1.ub = c.ub := by rw [es.ub, hub]
        have hmode' : e.1.mode = c.mode := by rw [es.mode, hmode]
        have hscale' : e.1.scale = 1 := by rw [es.scale, hsc]
        have hg'len : e.2.2.length = x'.length := by
          rw [hgv]
          simp only [vscale, List.length_map]
          apply hgl
          rw [← hg0, hlb, hub, hmode]
        have hinbox : clip x' c.lb c.ub = x' := by
          rw [← hx']
          unfold trial
          apply clip_of_inBox
          apply clip_inBox hbox
          simp [vadd, smul, vsub, vzip_length', hxb, hi.xlen]
        have hlenX0 : AllLen x'.length s.X := by rw [hx'len]; exact hi.lenX
        have hlenG0 : AllLen x'.length s.G := by rw [hx'len]; exact hi.lenG
        unfold afterEval at h
        simp only [hU, Bool.false_eq_true, if_false, pure, Except.pure] at h
        unfold stopTests at h
        simp only [hi.ftarget, targetReached] at h
        -- the state right after the evaluation (before the stop tests)
        have base : ∀ (t : Msg) (su : Bool) (w : Nat), DInvS u c
            { s with x := x', f := e.2.1, g := e.2.2, sf := e.1, olog := olog, task := t, success := su, warnflag := w,
                     ftarget := none } :=
          fun t su w => ⟨by rw [hx'len, hi.xlen], hg'len, hlenX0, hlenG0, hi.hlen, hi.pos, hi.chain, hi.mats, es.coh, hmode',
            hlb', hub', hscale', hinbox, rfl⟩
        by_cases hmc : minChange e.2.1 s.f c.ftol = true
        · simp only [hmc, if_true, Bool.false_eq_true, if_false, Except.ok.injEq, Prod.mk.injEq] at h
          rw [← h.1]
          exact base _ _ _
        · simp only [hmc, Bool.false_eq_true, if_false] at h
          split at h
          · simp at h
          · rename_i s2 hs2
            simp only [Except.ok.injEq, Prod.mk.injEq] at h
            rw [← h.1]
            -- the memory update
            have hmem : DInvS u c (memStep c { s with x := x', f := e.2.1, g := e.2.2, sf := e.1, olog := olog, ftarget := none }) := by
              by_cases hacc : curvOk x' e.2.2 (lastD s.X) (lastD s.G) c.epsSY = true
              · rw [memStep_acc c { s with x := x', f := e.2.1, g := e.2.2, sf := e.1, olog := olog, ftarget := none } hacc hi.hlen]
                have hch : CurvChain c.epsSY (s.X ++ [x']) (s.G ++ [e.2.2]) :=
                  curvChain_append c.epsSY s.X s.G x' e.2.2 hi.hlen hi.chain hi.pos hacc
                have hXl : (pushed c.maxcor s.X x').length = (pushed c.maxcor s.G e.2.2).length := by
                  unfold pushed
                  simp only [List.length_append, List.length_cons, List.length_nil, hi.hlen]
                  split <;> simp [hi.hlen]
                have hXpos : (pushed c.maxcor s.X x').length > 1 := by
                  have : 0 < s.X.length := List.length_pos_of_ne_nil hi.pos
                  unfold pushed
                  simp only [List.length_append, List.length_cons, List.length_nil]
                  split <;> simp only [List.length_drop, List.length_append, List.length_cons, List.length_nil] <;> omega
                refine ⟨by rw [hx'len, hi.xlen], hg'len, ?_, ?_, hXl, ?_, ?_, ?_, es.coh, hmode', hlb', hub', hscale', hinbox, rfl⟩
                · show AllLen x'.length (pushed c.maxcor s.X x')
                  unfold pushed; split
                  · exact allLen_drop (allLen_append_one hlenX0 rfl) 1
                  · exact allLen_append_one hlenX0 rfl
                · show AllLen x'.length (pushed c.maxcor s.G e.2.2)
                  unfold pushed; split
                  · exact allLen_drop (allLen_append_one hlenG0 hg'len) 1
                  · exact allLen_append_one hlenG0 hg'len
                · show pushed c.maxcor s.X x' ≠ []
                  intro e0
                  rw [e0] at hXpos; simp at hXpos
                · show CurvChain c.epsSY (pushed c.maxcor s.X x') (pushed c.maxcor s.G e.2.2)
                  unfold pushed
                  simp only [List.length_append, List.length_cons, List.length_nil, hi.hlen]
                  split
                  · exact curvChain_drop1 c.epsSY _ _ hch
                  · exact hch
                · show some (pushed c.maxcor s.X x', pushed c.maxcor s.G e.2.2) = _
                  rw [if_pos hXpos]
              · rw [memStep_rej c _ hU (by simpa using hacc)]
                exact ⟨by rw [hx'len, hi.xlen], hg'len, hlenX0, hlenG0, hi.hlen, hi.pos, hi.chain, hi.mats, es.coh, hmode',
                  hlb', hub', hscale', hinbox, rfl⟩
            obtain ⟨lg, cbs, t, su, h2⟩ := doCallback_frame u c _ s2 hs2
            subst h2
            exact ⟨hmem.xlen, hmem.glen, hmem.lenX, hmem.lenG, hmem.hlen, hmem.pos, hmem.chain, hmem.mats, hmem.coh,
              hmem.sf_mode, hmem.sf_lb, hmem.sf_ub, hmem.sf_scale, hmem.inbox, hmem.ftarget⟩

open C06 in
/-- **the state a fresh run enters its loop with satisfies the invariant** -/
theorem fresh_dinv (u : User K ε) (c : Cfg K) (a : K) (hck : c.checkpoint = none) (hS : c.hasScaler = false)
    (hU : c.hasUpdate = false) (hT : c.ftarget = none) (hg : c.gtol = .const a) (hbox : BoxOk c.lb c.ub)
    (hx0 : c.x0.length = c.lb.length) (hgl : GradLen u c) (i : Init K) (s : St K)
    (hi : initEval u c = .ok i) (hp : prepare u c i = .ok s) : DInvS u c s := by
  obtain ⟨⟨X', G', hr⟩, hcoh, hglen, hxlen⟩ := fresh_rinv u c a hck hS hU hT hg hbox hx0 hgl i s hi hp
  obtain ⟨hiX, hiG⟩ := initEval_fresh u c i hck hi
  obtain ⟨hX, hG, -⟩ := prepare_fresh_any u c i s hiX hiG hp
  refine ⟨hxlen, hglen, ?_, ?_, by rw [hX, hG]; rfl, by rw [hX]; simp, by rw [hX, hG]; simp [CurvChain], hr.mats, hcoh,
    hr.sf_mode, hr.sf_lb, hr.sf_ub, hr.sf_scale, hr.inbox, hr.ftarget⟩
  · rw [hX]; intro v hv; simp only [List.mem_singleton] at hv; rw [hv]
  · rw [hG]; intro v hv; simp only [List.mem_singleton] at hv; rw [hv]; exact hglen

/-- loop-head states reached from `s0` (any pass of the loop body that goes on) -/
inductive Reach (u : User K ε) (o : Oracles K δ) (c : Cfg K) (s0 : St K) : St K → Prop
  | refl : Reach u o c s0 s0
  | step {s s' : St K} : Reach u o c s0 s → guard c s = true → iterBody u o c s = .ok (s', .next) → Reach u o c s0 s'

open C06 in
theorem reach_dinv (u : User K ε) (o : Oracles K δ) (c : Cfg K) (hU : c.hasUpdate = false) (hm : 1 ≤ c.maxcor)
    (hbox : BoxOk c.lb c.ub) (hgl : GradLen u c) (hxb : XbarLen o c) (s0 s : St K) (h0 : DInvS u c s0)
    (hr : Reach u o c s0 s) : DInvS u c s := by
  induction hr with
  | refl => exact h0
  | step _ _ hb ih => exact iterBody_dinv u o c hU hm hbox hgl _ _ _ ih (hxb _ _ _ ih.xlen ih.inbox) hb

/-- the run passes through every such state -/
theorem mainLoop_of_reach' (u : User K ε) (o : Oracles K δ) (c : Cfg K) (s0 s : St K)
    (hr : Reach u o c s0 s) : ∃ k, ∀ fuel, mainLoop u o c (fuel + k) s0 = mainLoop u o c fuel s := by
  induction hr with
  | refl => exact ⟨0, fun _ => rfl⟩
  | @step s1 s2 _ hg hb ih =>
    obtain ⟨k, hk⟩ := ih
    refine ⟨k + 1, fun fuel => ?_⟩
    have := hk (fuel + 1)
    rw [show fuel + (k + 1) = fuel + 1 + k by omega, this]
    simp only [mainLoop, hg, if_true, hb, bind, Except.bind]

/-- the loop body never changes the evaluated tolerance `gtol` -/
theorem iterBody_gtol (u : User K ε) (o : Oracles K δ) (c : Cfg K) (s s' : St K) (flow : Flow)
    (h : iterBody u o c s = .ok (s', flow)) : s'.gtol = s.gtol := by
  unfold iterBody at h
  simp only [bind, Except.bind] at h
  split at h
  · simp at h
  · rename_i r hr
    obtain ⟨sfL, stp?, olog⟩ := r
    dsimp only at h
    cases stp? with
    | none =>
      simp only [pure, Except.pure, Except.ok.injEq] at h
      unfold iterFail at h
      dsimp only at h
      split at h <;> (simp only [Prod.mk.injEq] at h; rw [← h.1])
    | some stp =>
      simp only at h
      unfold iterStep at h
      simp only [bind, Except.bind] at h
      split at h
      · simp at h
      · rename_i e he
        split at h
        · simp at h
        · rename_i r2 hr2
          obtain ⟨s1, stop⟩ := r2
          have h1 : s1.gtol = s.gtol := by
            unfold afterEval at hr2
            split at hr2
            · simp only [bind, Except.bind] at hr2
              split at hr2
              · simp at hr2
              · simp only [pure, Except.pure, Except.ok.injEq] at hr2
                unfold stopTests at hr2
                split at hr2
                · simp only [Prod.mk.injEq] at hr2; rw [← hr2.1]; rfl
                · split at hr2 <;> (simp only [Prod.mk.injEq] at hr2; rw [← hr2.1]; rfl)
            · simp only [pure, Except.pure, Except.ok.injEq] at hr2
              unfold stopTests at hr2
              split at hr2
              · simp only [Prod.mk.injEq] at hr2; rw [← hr2.1]
              · split at hr2 <;> (simp only [Prod.mk.injEq] at hr2; rw [← hr2.1])
          dsimp only at h
          split at h
          · simp only [pure, Except.pure, Except.ok.injEq, Prod.mk.injEq] at h
            rw [← h.1]; exact h1
          · split at h
            · simp at h
            · rename_i s2 hs2
              simp only [pure, Except.pure, Except.ok.injEq, Prod.mk.injEq] at h
              rw [← h.1]
              obtain ⟨lg, cbs, t, su, h2⟩ := doCallback_frame u c _ s2 hs2
              rw [h2]
              show (memStep c s1).gtol = s.gtol
              rw [← h1]; rfl

theorem reach_gtol (u : User K ε) (o : Oracles K δ) (c : Cfg K) (s0 s : St K) (hr : Reach u o c s0 s) : s.gtol = s0.gtol := by
  induction hr with
  | refl => rfl
  | step _ _ hb ih => rw [iterBody_gtol u o c _ _ _ hb, ih]

/-- the Fortran floor `f'' := max(f'', eps·f''₀)` of the Cauchy search stays inactive at this state: for every direction met
along the search (the initial one with some components zeroed) the curvature of the model is at least `eps·f''₀` -/
def FloorOK (c : Cfg K) (e : K) (s : St K) : Prop :=
  ∀ dd : Fin s.x.length → K, dd ≠ 0 →
    (∀ r, dd r = 0 ∨ dd r = vec s.x.length (cauchyD0 (breakpoints s.x s.g c.lb c.ub) s.g) r) →
    e * f2orgOf (kernelInput s.x s.g c.lb c.ub s.mats e) ≤
      dd ⬝ᵥ ((if s.X.length > 1 then
          C10.bfgsChain ((thetaOf s.X s.G) • (1 : Matrix (Fin s.x.length) (Fin s.x.length) K))
            (CompactKernel.pairsOf s.x.length (diffs s.X) (diffs s.G))
        else 1) *ᵥ dd)

/-- **C01 (run level)** at a loop-head state satisfying the invariant, when the loop goes on (`gtol < |proj g|`, `gtol ≥ 0`) and the
floor is inactive, the direction the complete model hands to the line search is a descent direction -/
theorem state_direction_descent [Dcsrch.DcOps K] (u : User K ε) (c : Cfg K) (e : K) (s : St K) (hi : DInvS u c s)
    (hbx : BoxOk c.lb c.ub) (hn : 0 < c.lb.length) (he : 0 ≤ c.epsSY) (hgt : 0 ≤ s.gtol) (hguard : guard c s = true)
    (hfl : FloorOK c e s) :
    vec s.x.length s.g ⬝ᵥ
      (vec s.x.length ((concreteOracles c.lb c.ub e).xbar s.x s.g s.mats) - vec s.x.length s.x) < 0 := by
  have hns : projgr s.x s.g c.lb c.ub ≠ 0 := by
    unfold guard at hguard
    simp only [Bool.and_eq_true, decide_eq_true_eq] at hguard
    have := hguard.1.1.1
    exact ne_of_gt (lt_of_le_of_lt hgt this)
  have hfit : fitTo s.x s.g = s.g := fitTo_eq s.x s.g hi.glen
  have hbox : InBoxF c.lb c.ub s.x := by
    apply inBoxF_of_inBox
    rw [← hi.inbox]
    exact clip_inBox hbx s.x hi.xlen
  show vec s.x.length s.g ⬝ᵥ (vec s.x.length (xbarModel c.lb c.ub e s.x s.g s.mats) - vec s.x.length s.x) < 0
  by_cases hX : s.X.length > 1
  · rw [hi.mats, if_pos hX]
    have := descent_from_memory_invariant c.lb c.ub e c.epsSY he s.x s.g s.X s.G hX hi.hlen (by rw [hi.xlen]; exact hn)
      hi.lenX hi.lenG hi.chain hbox (by
        intro dd hne hpat
        rw [hfit] at hpat
        have := hfl dd hne hpat
        rw [if_pos hX, hi.mats, if_pos hX] at this
        exact this) (by rw [hfit]; exact hns)
    rw [hfit] at this
    exact this
  · rw [hi.mats, if_neg hX]
    exact first_iteration_descent c.lb c.ub e s.x s.g s.x.length rfl (by rw [hi.xlen]; exact hn) hi.glen hbox hns (by
      intro dd hne hpat
      have := hfl dd hne hpat
      rw [if_neg hX, hi.mats, if_neg hX, one_mulVec] at this
      rw [one_mul]
      exact this)

open C06 in
/-- **C01 (every line search of a fresh run of the complete model starts along a descent direction)** — fresh run, no scaler, no
update function, no target, constant `gtol`; well-formed box of the size of `x0`; gradients of the length of their argument;
`maxcor ≥ 1`, `eps ≥ 0`, `gtol ≥ 0`. At every loop-head state the run reaches, if the loop goes on there (`gtol < |proj g|`) and the Fortran
floor is inactive, `gᵀ(x̄ − x) < 0` for the point `x̄` the composed kernel models return. -/
theorem run_direction_descent [Dcsrch.DcOps K] (u : User K ε) (c : Cfg K) (e a : K)
    (hck : c.checkpoint = none) (hS : c.hasScaler = false) (hU : c.hasUpdate = false) (hT : c.ftarget = none)
    (hg : c.gtol = .const a) (hm : 1 ≤ c.maxcor) (hbox : BoxOk c.lb c.ub) (hx0 : c.x0.length = c.lb.length)
    (hn : 0 < c.lb.length) (he : 0 ≤ c.epsSY) (hgl : GradLen u c)
    (i0 : Init K) (s0 s : St K) (hi0 : initEval u c = .ok i0) (hp0 : prepare u c i0 = .ok s0)
    (hr : Reach u (concreteOracles c.lb c.ub e) c s0 s)
    (ha : 0 ≤ a) (hguard : guard c s = true) (hfl : FloorOK c e s) :
    vec s.x.length s.g ⬝ᵥ
      (vec s.x.length ((concreteOracles c.lb c.ub e).xbar s.x s.g s.mats) - vec s.x.length s.x) < 0 := by
  obtain ⟨⟨X', G', hre⟩, -, -, -⟩ := fresh_rinv u c a hck hS hU hT hg hbox hx0 hgl i0 s0 hi0 hp0
  have hgt : 0 ≤ s.gtol := by rw [reach_gtol u _ c s0 s hr, hre.gtol]; exact ha
  exact state_direction_descent u c e s
    (reach_dinv u _ c hU hm hbox hgl (xbarLen_concrete c e hbox) s0 s
      (fresh_dinv u c a hck hS hU hT hg hbox hx0 hgl i0 s0 hi0 hp0) hr)
    hbox hn he hgt hguard hfl

end Lbfgsb.C01

/-! ### Non-vacuity (ℚ): the instance of `C06Sim` (`f = ½|x|²` on `[−2,2]²` from `(1,1)`), complete model, no floor (`e = 0`): the
hypotheses of `run_direction_descent` hold at the state the run enters its loop with. -/
namespace Lbfgsb.C01
open Lbfgsb Matrix C06
section nonvacuous
attribute [local instance] fieldFloatLike

def runCheck : Bool :=
  match initEval simUser simCfg with
  | .ok i0 =>
    match prepare simUser simCfg i0 with
    | .ok s0 => guard simCfg s0 && decide (s0.X.length = 1)
    | _ => false
  | _ => false

theorem runCheck_true : runCheck = true := by decide +kernel

example : ∃ s0 : St ℚ, vec s0.x.length s0.g ⬝ᵥ
    (vec s0.x.length ((concreteOracles simCfg.lb simCfg.ub 0).xbar s0.x s0.g s0.mats) - vec s0.x.length s0.x) < 0 := by
  have h := runCheck_true
  unfold runCheck at h
  split at h
  · rename_i i0 hi0
    split at h
    · rename_i s0 hp0
      simp only [Bool.and_eq_true, decide_eq_true_eq] at h
      obtain ⟨hg, hX⟩ := h
      refine ⟨s0, run_direction_descent simUser simCfg 0 (1 / 1000) rfl rfl rfl rfl rfl (by decide)
        (by simp only [simCfg, BoxOk]; norm_num) rfl (by decide) (le_refl _)
        (by intro x g h; simp only [gradSpec, simCfg, simUser, Except.ok.injEq] at h; rw [← h])
        i0 s0 s0 hi0 hp0 Reach.refl (by norm_num) hg ?_⟩
      intro dd _ _
      rw [zero_mul, if_neg (by omega), one_mulVec]
      exact Finset.sum_nonneg fun j _ => mul_self_nonneg (dd j)
    · simp at h
  · simp at h

end nonvacuous
end Lbfgsb.C01
