/-
  C12 — when no bound interferes, the point the model's iteration proposes is the L-BFGS quasi-Newton point.

  Algorithm 778 restricted to an unconstrained problem is the limited-memory BFGS method: the search
  direction is `−H g`, `H` the inverse BFGS matrix of the stored pairs started from `θ⁻¹ I`, which
  is what the two-loop recursion computes. The package never runs a two-loop recursion: it computes a
  generalized Cauchy point and then solves a `2m × 2m` system (direct primal method). Here:

    * `inv_chain_inverts_bfgs_chain` (Proofs/BfgsInverse): for pairs with `s ≠ 0`, `sᵀy > 0`, the chain of inverse BFGS
      updates from `θ⁻¹ I` is the inverse of the chain of direct updates from `θ I` — the matrix `hess_inv`-style
      operators apply and the matrix the solver works with (C10 `kernel_matrix_is_bfgs`) are inverse to each other
      when started from inverse scalings;
    * `newton_point_is_two_loop`: for the executable model `subspaceMin`, given the kernels' own matrices
      (`buildW`, `buildMinv` of stored pairs with positive curvature): if every variable is strictly inside its
      bounds at the Cauchy point and the quasi-Newton point `x − twoLoop(θ⁻¹I, pairs)(g)` lies in the box, then
      `subspaceMin` returns exactly that point — whatever the Cauchy point was. No hypothesis on any solve.
    * `newton_point_is_two_loop_nopairs`: with an empty memory the proposal is `x − g/θ` (steepest descent).

  The coincidence of the evaluation-point sequences with SciPy's L-BFGS-B in floating point remains a
  differential (harness/props/c12.py); these theorems say why the sequences coincide in exact arithmetic.
-/
import LbfgsbVerif.Proofs.BfgsInverse
import LbfgsbVerif.Proofs.FullNewton
import LbfgsbVerif.Props.C10Kernel
import LbfgsbVerif.Props.C01Curv
import LbfgsbVerif.Props.C08Free

set_option linter.unusedSectionVars false

namespace Lbfgsb.C12
open Lbfgsb Matrix CompactKernel CompactBridge CompactBfgs Lbfgsb.Gauss Lbfgsb.FullNewton Lbfgsb.C11 Lbfgsb.C01
variable {K : Type} [Field K] [LinearOrder K] [IsStrictOrderedRing K]

/-- **C12 / C18 / C10** the inverse-update chain inverts the direct-update chain -/
theorem inv_chain_inverts_bfgs_chain {n : Type} [Fintype n] [DecidableEq n] (θ : K) (hθ : 0 < θ)
    (ps : List ((n → K) × (n → K))) (hp : ∀ p ∈ ps, p.1 ≠ 0 ∧ 0 < p.1 ⬝ᵥ p.2) :
    C18.invChain (θ⁻¹ • (1 : Matrix n n K)) ps * C10.bfgsChain (θ • (1 : Matrix n n K)) ps = 1 :=
  BfgsInverse.invChain_theta θ hθ ps hp

theorem pairsOf_curv (nn : Nat) (S Y : List (Vec K)) (h : S.length = Y.length)
    (hcurv : ∀ j, j < S.length → vec nn (S.getD j []) ≠ 0 ∧ 0 < vec nn (S.getD j []) ⬝ᵥ vec nn (Y.getD j [])) :
    ∀ p ∈ pairsOf nn S Y, p.1 ≠ 0 ∧ 0 < p.1 ⬝ᵥ p.2 := by
  intro p hpm
  unfold pairsOf at hpm
  rw [List.mem_map] at hpm
  obtain ⟨q, hq, rfl⟩ := hpm
  obtain ⟨j, hj, hqj⟩ := List.mem_iff_getElem.mp hq
  have hjS : j < S.length := by rw [List.length_zip, ← h, Nat.min_self] at hj; exact hj
  have hjY : j < Y.length := by rw [← h]; exact hjS
  rw [List.getElem_zip] at hqj
  have e1 : S.getD j [] = S[j] := by rw [List.getD_eq_getElem?_getD, List.getElem?_eq_getElem hjS]; rfl
  have e2 : Y.getD j [] = Y[j] := by rw [List.getD_eq_getElem?_getD, List.getElem?_eq_getElem hjY]; rfl
  have := hcurv j hjS
  rw [e1, e2] at this
  rw [← hqj]
  exact this

/-- **C12 (the proposal of the model is the L-BFGS point when no bound interferes)** -/
theorem newton_point_is_two_loop (i : SubIn K) (n : Nat) (S Y : List (Vec K)) (hn : 0 < n)
    (hWeq : i.W = buildW n i.theta S Y) (hMeq : i.Minv = buildMinv i.theta S Y)
    (hθ : 0 < i.theta) (h : S.length = Y.length)
    (hS : ∀ j, j < S.length → (S.getD j []).length = n) (hY : ∀ j, j < S.length → (Y.getD j []).length = n)
    (hcurv : ∀ j, j < S.length → vec n (S.getD j []) ≠ 0 ∧ 0 < vec n (S.getD j []) ⬝ᵥ vec n (Y.getD j []))
    (Mm : Matrix (Fin ((lOf n S Y).length + (lOf n S Y).length)) (Fin ((lOf n S Y).length + (lOf n S Y).length)) K)
    (hM : Mm * wmat ((lOf n S Y).length + (lOf n S Y).length) ((lOf n S Y).length + (lOf n S Y).length) i.Minv = 1)
    (hx : i.x.length = n) (hg : i.g.length = n) (hxc : i.xc.length = n)
    (hcl : i.c.length = (lOf n S Y).length + (lOf n S Y).length) (uf : i.useFactor = true)
    (hc : vec ((lOf n S Y).length + (lOf n S Y).length) i.c =
      (wmat n ((lOf n S Y).length + (lOf n S Y).length) i.W)ᵀ *ᵥ (vec n i.xc - vec n i.x))
    -- no bound interferes: the Cauchy point is strictly inside the box …
    (hint : StrictIn i.lb i.ub i.xc)
    -- … and so is (weakly) the quasi-Newton point
    (hN : ∀ r : Fin n,
      vec n i.lb r ≤ (vec n i.x - C18.twoLoop (i.theta⁻¹ • (1 : Matrix (Fin n) (Fin n) K)) (pairsOf n S Y) (vec n i.g)) r ∧
      (vec n i.x - C18.twoLoop (i.theta⁻¹ • (1 : Matrix (Fin n) (Fin n) K)) (pairsOf n S Y) (vec n i.g)) r ≤ vec n i.ub r) :
    vec n (subspaceMin i) =
      vec n i.x - C18.twoLoop (i.theta⁻¹ • (1 : Matrix (Fin n) (Fin n) K)) (pairsOf n S Y) (vec n i.g) := by
  have box : InBoxF i.lb i.ub i.xc := inBoxF_of_strict hint
  have hm := lOf_length n S Y h
  have hWl : i.W.length = n := by rw [hWeq]; exact buildW_length _ _ _ _
  have hrow : ∀ r, r < n → (i.W.getD r []).length = (lOf n S Y).length + (lOf n S Y).length := by
    intro r hr; rw [hWeq, buildW_row _ _ _ _ r hr, hm, ← h]
  have hk : subK i = (lOf n S Y).length + (lOf n S Y).length := by
    unfold subK
    have h0 := hrow 0 hn
    cases hWc : i.W with
    | nil => rw [hWc] at hWl; simp at hWl; omega
    | cons r t =>
      rw [hWc] at h0
      simpa using h0
  have hMl : i.Minv.length = (lOf n S Y).length + (lOf n S Y).length := by rw [hMeq, C10.buildMinv_length, hm]
  have hMrow : ∀ r, r < (lOf n S Y).length + (lOf n S Y).length →
      (i.Minv.getD r []).length = (lOf n S Y).length + (lOf n S Y).length := by
    intro r hr
    rw [hMeq, hm]
    apply C10.buildMinv_rows
    rw [List.getD_eq_getElem?_getD, List.getElem?_eq_getElem (by rw [C10.buildMinv_length, ← hm]; exact hr)]
    exact List.getElem_mem _
  obtain ⟨hB, -⟩ := C10.kernel_matrix_is_bfgs n i.theta S Y hθ h hS hY hcurv Mm (by rw [← hMeq]; exact hM)
  rw [← hWeq] at hB
  have pd := kernel_model_pd n i.theta S Y hθ h hS hY hcurv Mm (by rw [← hMeq]; exact hM)
  rw [← hWeq] at pd
  have ctx : SubCtxP i n _ Mm := SubCtxP.of_pd hx hg hxc hWl hrow hcl box (ne_of_gt hθ) uf hk hMl hMrow hM hc pd
  have spec := subspace_spec i n _ Mm _ ctx.toSubCtx
  have hDl : (subD i).length = n := spec.2.2.1
  have hmask : subMask i = List.replicate n true := by
    unfold subMask; rw [freeMask_strict _ _ _ hint, hxc]
  -- the Newton condition on every coordinate
  have hnewt : C10.bfgsChain (i.theta • (1 : Matrix (Fin n) (Fin n) K)) (pairsOf n S Y) *ᵥ
      ((vec n i.xc - vec n i.x) + vec n (subD i)) = -vec n i.g := by
    rw [← hB]
    funext r
    have hr : maskF n (subMask i) r = true := by
      unfold maskF; rw [hmask]
      simp [List.getD_eq_getElem?_getD, r.2]
    have := spec.2.1 r hr
    simp only [Pi.add_apply, Pi.neg_apply] at this ⊢
    linarith
  have hw := BfgsInverse.newton_eq_two_loop i.theta hθ (pairsOf n S Y) (pairsOf_curv n S Y h hcurv) (vec n i.g) _ hnewt
  have hpt : vec n (vadd i.xc (subD i)) =
      vec n i.x - C18.twoLoop (i.theta⁻¹ • (1 : Matrix (Fin n) (Fin n) K)) (pairsOf n S Y) (vec n i.g) := by
    rw [vec_vadd n _ _ hxc hDl, sub_eq_add_neg (vec n i.x), ← hw]
    abel
  obtain ⟨hll, hul⟩ := inBoxF_lengths box
  have hfeas : InBoxF i.lb i.ub (vadd i.xc (subD i)) := by
    apply inBoxF_of_pointwise n _ _ _ (by rw [hll, hxc]) (by rw [hul, hxc])
      (by simp [vadd, vzip_length', hxc, hDl])
    intro j hj
    have := hN ⟨j, hj⟩
    rw [← hpt] at this
    exact this
  rw [(full_step_of_spec i n _ Mm spec hn hx hxc hint hfeas).1, hpt]

/-- **C12 (… with an empty memory: steepest descent scaled by 1/θ)** -/
theorem newton_point_is_two_loop_nopairs (i : SubIn K) (n k : Nat) (hn : 0 < n)
    (hx : i.x.length = n) (hg : i.g.length = n) (hxc : i.xc.length = n) (hW : i.W.length = n)
    (hrow : ∀ r, r < n → (i.W.getD r []).length = k) (hθ : i.theta ≠ 0) (uf : i.useFactor = false)
    (hint : StrictIn i.lb i.ub i.xc)
    (hN : ∀ r : Fin n, vec n i.lb r ≤ (vec n i.x - i.theta⁻¹ • vec n i.g) r ∧
      (vec n i.x - i.theta⁻¹ • vec n i.g) r ≤ vec n i.ub r) :
    vec n (subspaceMin i) = vec n i.x - i.theta⁻¹ • vec n i.g := by
  have box : InBoxF i.lb i.ub i.xc := inBoxF_of_strict hint
  have spec := subspace_spec0 i n k ⟨hx, hg, hxc, hW, hrow, box, hθ, uf⟩
  have hDl : (subD i).length = n := spec.2.2.1
  have hmask : subMask i = List.replicate n true := by
    unfold subMask; rw [freeMask_strict _ _ _ hint, hxc]
  have hnewt : i.theta • ((vec n i.xc - vec n i.x) + vec n (subD i)) = -vec n i.g := by
    funext r
    have hr : maskF n (subMask i) r = true := by
      unfold maskF; rw [hmask]
      simp [List.getD_eq_getElem?_getD, r.2]
    have := spec.2.1 r hr
    rw [bmat_mulVec] at this
    simp only [Matrix.zero_mulVec, Matrix.mulVec_zero, sub_zero, Pi.add_apply, Pi.neg_apply] at this ⊢
    linarith
  have hw : (vec n i.xc - vec n i.x) + vec n (subD i) = -(i.theta⁻¹ • vec n i.g) := by
    have := congrArg (fun v => i.theta⁻¹ • v) hnewt
    simp only [smul_smul, inv_mul_cancel₀ hθ, one_smul, smul_neg] at this
    exact this
  have hpt : vec n (vadd i.xc (subD i)) = vec n i.x - i.theta⁻¹ • vec n i.g := by
    rw [vec_vadd n _ _ hxc hDl, sub_eq_add_neg (vec n i.x), ← hw]
    abel
  obtain ⟨hll, hul⟩ := inBoxF_lengths box
  have hfeas : InBoxF i.lb i.ub (vadd i.xc (subD i)) := by
    apply inBoxF_of_pointwise n _ _ _ (by rw [hll, hxc]) (by rw [hul, hxc])
      (by simp [vadd, vzip_length', hxc, hDl])
    intro j hj
    have := hN ⟨j, hj⟩
    rw [← hpt] at this
    exact this
  rw [(full_step_of_spec i n k 0 spec hn hx hxc hint hfeas).1, hpt]

/-- **C12 (one iteration of the complete model is an L-BFGS iteration when no bound interferes)** — the composition
`subspaceMin ∘ cauchy` on the memory snapshot, as the driver chains them (`xbarModel`): under the hypotheses of
C01 `complete_iteration_descent_curv` (history of vectors of the length of `x` whose consecutive pairs have positive
curvature, feasible `x`, inactive floor), if the Cauchy point is strictly inside the box and the quasi-Newton point
`x − twoLoop(θ⁻¹I, pairs)(g)` lies in the box, the point the line search is aimed at IS that quasi-Newton point. -/
theorem complete_iteration_is_lbfgs (lb ub : Vec K) (e : K) (x g : Vec K) (X G : List (Vec K))
    (hX : X.length > 1) (hXG : X.length = G.length) (hn : 0 < x.length)
    (hS : ∀ j, j < (diffs X).length → ((diffs X).getD j []).length = x.length)
    (hY : ∀ j, j < (diffs X).length → ((diffs G).getD j []).length = x.length)
    (hcurv : ∀ j, j < (diffs X).length → vec x.length ((diffs X).getD j []) ≠ 0 ∧
      0 < vec x.length ((diffs X).getD j []) ⬝ᵥ vec x.length ((diffs G).getD j []))
    (hθ : 0 < thetaOf X G) (box : InBoxF lb ub x)
    (floor : ∀ dd : Fin x.length → K, dd ≠ 0 →
      (∀ r, dd r = 0 ∨ dd r = vec x.length (cauchyD0 (breakpoints x (fitTo x g) lb ub) (fitTo x g)) r) →
      e * f2orgOf (kernelInput x g lb ub (some (X, G)) e) ≤
        dd ⬝ᵥ (C10.bfgsChain ((thetaOf X G) • (1 : Matrix (Fin x.length) (Fin x.length) K))
          (pairsOf x.length (diffs X) (diffs G)) *ᵥ dd))
    (hint : StrictIn lb ub (cauchy (kernelInput x g lb ub (some (X, G)) e)).1)
    (hN : ∀ r : Fin x.length,
      vec x.length lb r ≤ (vec x.length x - C18.twoLoop ((thetaOf X G)⁻¹ • (1 : Matrix (Fin x.length) (Fin x.length) K))
        (pairsOf x.length (diffs X) (diffs G)) (vec x.length (fitTo x g))) r ∧
      (vec x.length x - C18.twoLoop ((thetaOf X G)⁻¹ • (1 : Matrix (Fin x.length) (Fin x.length) K))
        (pairsOf x.length (diffs X) (diffs G)) (vec x.length (fitTo x g))) r ≤ vec x.length ub r) :
    vec x.length (xbarModel lb ub e x g (some (X, G))) =
      vec x.length x - C18.twoLoop ((thetaOf X G)⁻¹ • (1 : Matrix (Fin x.length) (Fin x.length) K))
        (pairsOf x.length (diffs X) (diffs G)) (vec x.length (fitTo x g)) := by
  have hi : kernelInput x g lb ub (some (X, G)) e =
      { x, g := fitTo x g, lb, ub, theta := thetaOf X G, W := buildW x.length (thetaOf X G) (diffs X) (diffs G),
        Minv := buildMinv (thetaOf X G) (diffs X) (diffs G), useFactor := true, epsFsec := e } := by
    simp only [kernelInput, hX, if_true]
  have hSY : (diffs X).length = (diffs G).length := by rw [diffs_length, diffs_length, hXG]
  have hm := lOf_length x.length (diffs X) (diffs G) hSY
  obtain ⟨Mm, hM⟩ := kernel_minv_invertible x.length (thetaOf X G) (diffs X) (diffs G) hθ hSY hS hY hcurv
  obtain ⟨hB, hspd⟩ := C10.kernel_matrix_is_bfgs x.length (thetaOf X G) (diffs X) (diffs G) hθ hSY hS hY hcurv Mm hM
  -- sizes of the kernel input
  obtain ⟨sW, srow, sk, -, -, -⟩ := kernelInput_sizes x g lb ub X G e hX hXG hn
  have hkk : 2 * (X.length - 1) = (lOf x.length (diffs X) (diffs G)).length + (lOf x.length (diffs X) (diffs G)).length := by
    rw [hm, diffs_length]; omega
  have hg : (fitTo x g).length = x.length := fitTo_length x g
  rw [hi] at sW srow sk
  have hsym : (wmat ((lOf x.length (diffs X) (diffs G)).length + (lOf x.length (diffs X) (diffs G)).length)
      ((lOf x.length (diffs X) (diffs G)).length + (lOf x.length (diffs X) (diffs G)).length)
      (buildMinv (thetaOf X G) (diffs X) (diffs G)))ᵀ =
      wmat _ _ (buildMinv (thetaOf X G) (diffs X) (diffs G)) := by
    funext a b
    simp only [transpose_apply, wmat]
    exact buildMinv_symm _ _ _ b a (by have := b.2; omega) (by have := a.2; omega)
  have hMl : (buildMinv (thetaOf X G) (diffs X) (diffs G)).length =
      (lOf x.length (diffs X) (diffs G)).length + (lOf x.length (diffs X) (diffs G)).length := by
    rw [C10.buildMinv_length, hm]
  have hMrow : ∀ r, r < (lOf x.length (diffs X) (diffs G)).length + (lOf x.length (diffs X) (diffs G)).length →
      ((buildMinv (thetaOf X G) (diffs X) (diffs G)).getD r []).length =
        (lOf x.length (diffs X) (diffs G)).length + (lOf x.length (diffs X) (diffs G)).length := by
    intro r hr
    rw [hm]
    apply C10.buildMinv_rows
    rw [List.getD_eq_getElem?_getD, List.getElem?_eq_getElem (by rw [C10.buildMinv_length, ← hm]; exact hr)]
    exact List.getElem_mem _
  -- the context of the Cauchy theorems
  have hq : QCtx (kernelInput x g lb ub (some (X, G)) e) x.length _ Mm := by
    rw [hi]
    exact C09.qctx_of_pivots _ x.length _ Mm rfl hg sW (fun r hr => by rw [srow r hr, hkk]) rfl hMl hMrow hM hsym
  have hpd : ∀ a : Fin x.length → K, a ≠ 0 →
      0 < a ⬝ᵥ (bmat (thetaOf X G) (wmat x.length _ (buildW x.length (thetaOf X G) (diffs X) (diffs G))) Mm *ᵥ a) := by
    intro a ha; rw [hB]; exact hspd.2 a ha
  have hmin : MinCtx (kernelInput x g lb ub (some (X, G)) e) x.length _ Mm (f2orgOf (kernelInput x g lb ub (some (X, G)) e)) := by
    refine ⟨hq, ?_, ?_, ?_⟩
    · rw [hi]; exact box
    · rw [hi]; exact hpd
    · intro dd hne hpat
      have := floor dd hne (by rw [hi] at hpat; exact hpat)
      rw [hi]
      show e * _ ≤ dd ⬝ᵥ (bmat (thetaOf X G) _ Mm *ᵥ dd)
      rw [hB]
      rw [hi] at this
      exact this
  have hk : kOf (kernelInput x g lb ub (some (X, G)) e) =
      (lOf x.length (diffs X) (diffs G)).length + (lOf x.length (diffs X) (diffs G)).length := by
    rw [hi, sk, hkk]
  -- the Cauchy step and the context of the subspace theorems
  obtain ⟨tF, -, -, -, hcp, hcv⟩ := C08.gcp_first_local_min _ x.length _ Mm hk hmin
  have hcl := cauchy_c_length _ x.length _ Mm hk hmin
  have hboxc : InBoxF lb ub (cauchy (kernelInput x g lb ub (some (X, G)) e)).1 := by
    have hbx := C11.inBox_of_inBoxF box
    have := C08.gcp_in_box (kernelInput x g lb ub (some (X, G)) e) (by rw [hi]; exact boxOk_of_inBox hbx)
      (by rw [hi]; exact hbx) (by rw [hi]; exact hg)
    rw [hi] at this ⊢
    exact inBoxF_of_inBox this
  have hxcl : (cauchy (kernelInput x g lb ub (some (X, G)) e)).1.length = x.length := by
    have := (inBoxF_lengths hboxc).1
    rw [← this, (inBoxF_lengths box).1]
  have key := newton_point_is_two_loop (subInOf (kernelInput x g lb ub (some (X, G)) e)) x.length (diffs X) (diffs G) hn
    (by show (kernelInput x g lb ub (some (X, G)) e).W = buildW x.length (kernelInput x g lb ub (some (X, G)) e).theta _ _; rw [hi])
    (by show (kernelInput x g lb ub (some (X, G)) e).Minv = buildMinv (kernelInput x g lb ub (some (X, G)) e).theta _ _; rw [hi])
    (by show 0 < (kernelInput x g lb ub (some (X, G)) e).theta; rw [hi]; exact hθ)
    hSY hS hY hcurv Mm
    (by show Mm * wmat _ _ (kernelInput x g lb ub (some (X, G)) e).Minv = 1; rw [hi]; exact hM)
    (by show (kernelInput x g lb ub (some (X, G)) e).x.length = x.length; rw [hi])
    (by show (kernelInput x g lb ub (some (X, G)) e).g.length = x.length; rw [hi]; exact hg)
    hxcl hcl
    (by show (kernelInput x g lb ub (some (X, G)) e).useFactor = true; rw [hi])
    (by
      show vec _ (cauchy (kernelInput x g lb ub (some (X, G)) e)).2 =
        (wmat x.length _ (kernelInput x g lb ub (some (X, G)) e).W)ᵀ *ᵥ
          (vec x.length (cauchy (kernelInput x g lb ub (some (X, G)) e)).1 - vec x.length (kernelInput x g lb ub (some (X, G)) e).x)
      rw [hcv, hcp])
    (by
      show StrictIn (kernelInput x g lb ub (some (X, G)) e).lb (kernelInput x g lb ub (some (X, G)) e).ub _
      rw [hi] at hint ⊢; exact hint)
    (by
      show ∀ r : Fin x.length, vec x.length (kernelInput x g lb ub (some (X, G)) e).lb r ≤
        (vec x.length (kernelInput x g lb ub (some (X, G)) e).x -
          C18.twoLoop ((kernelInput x g lb ub (some (X, G)) e).theta⁻¹ • (1 : Matrix (Fin x.length) (Fin x.length) K))
            (pairsOf x.length (diffs X) (diffs G)) (vec x.length (kernelInput x g lb ub (some (X, G)) e).g)) r ∧
        (vec x.length (kernelInput x g lb ub (some (X, G)) e).x -
          C18.twoLoop ((kernelInput x g lb ub (some (X, G)) e).theta⁻¹ • (1 : Matrix (Fin x.length) (Fin x.length) K))
            (pairsOf x.length (diffs X) (diffs G)) (vec x.length (kernelInput x g lb ub (some (X, G)) e).g)) r ≤
        vec x.length (kernelInput x g lb ub (some (X, G)) e).ub r
      rw [hi]; exact hN)
  have e1 : xbarModel lb ub e x g (some (X, G)) = subspaceMin (subInOf (kernelInput x g lb ub (some (X, G)) e)) := rfl
  rw [e1, key]
  show vec x.length (kernelInput x g lb ub (some (X, G)) e).x -
      C18.twoLoop ((kernelInput x g lb ub (some (X, G)) e).theta⁻¹ • (1 : Matrix (Fin x.length) (Fin x.length) K))
        (pairsOf x.length (diffs X) (diffs G)) (vec x.length (kernelInput x g lb ub (some (X, G)) e).g) = _
  rw [hi]

/-- **C12 (… with hypotheses on the data only)** the same, with "the Cauchy point is strictly inside the box" replaced by a condition
on the inputs: the segment from `x` to a little beyond the unconstrained Cauchy step `x − t* g`, `t* = gᵀg / gᵀBg` (`B` the BFGS matrix
of the stored pairs), lies in the box, strictly at `t*` (C08 `cauchy_unconstrained_step`: the Cauchy point is then `x − t* g`). -/
theorem complete_iteration_is_lbfgs_data (lb ub : Vec K) (e : K) (x g : Vec K) (X G : List (Vec K))
    (hX : X.length > 1) (hXG : X.length = G.length) (hn : 0 < x.length)
    (hS : ∀ j, j < (diffs X).length → ((diffs X).getD j []).length = x.length)
    (hY : ∀ j, j < (diffs X).length → ((diffs G).getD j []).length = x.length)
    (hcurv : ∀ j, j < (diffs X).length → vec x.length ((diffs X).getD j []) ≠ 0 ∧
      0 < vec x.length ((diffs X).getD j []) ⬝ᵥ vec x.length ((diffs G).getD j []))
    (hθ : 0 < thetaOf X G) (box : InBoxF lb ub x)
    (floor : ∀ dd : Fin x.length → K, dd ≠ 0 →
      (∀ r, dd r = 0 ∨ dd r = vec x.length (cauchyD0 (breakpoints x (fitTo x g) lb ub) (fitTo x g)) r) →
      e * f2orgOf (kernelInput x g lb ub (some (X, G)) e) ≤
        dd ⬝ᵥ (C10.bfgsChain ((thetaOf X G) • (1 : Matrix (Fin x.length) (Fin x.length) K))
          (pairsOf x.length (diffs X) (diffs G)) *ᵥ dd))
    (hG : vec x.length (fitTo x g) ≠ 0) (T : K)
    (hT : (vec x.length (fitTo x g) ⬝ᵥ vec x.length (fitTo x g)) /
        (vec x.length (fitTo x g) ⬝ᵥ (C10.bfgsChain ((thetaOf X G) • (1 : Matrix (Fin x.length) (Fin x.length) K))
          (pairsOf x.length (diffs X) (diffs G)) *ᵥ vec x.length (fitTo x g))) < T)
    (hTbox : InBoxF lb ub (vsub x (smul T (fitTo x g))))
    (hstrict : StrictIn lb ub (vsub x (smul ((vec x.length (fitTo x g) ⬝ᵥ vec x.length (fitTo x g)) /
        (vec x.length (fitTo x g) ⬝ᵥ (C10.bfgsChain ((thetaOf X G) • (1 : Matrix (Fin x.length) (Fin x.length) K))
          (pairsOf x.length (diffs X) (diffs G)) *ᵥ vec x.length (fitTo x g)))) (fitTo x g))))
    (hN : ∀ r : Fin x.length,
      vec x.length lb r ≤ (vec x.length x - C18.twoLoop ((thetaOf X G)⁻¹ • (1 : Matrix (Fin x.length) (Fin x.length) K))
        (pairsOf x.length (diffs X) (diffs G)) (vec x.length (fitTo x g))) r ∧
      (vec x.length x - C18.twoLoop ((thetaOf X G)⁻¹ • (1 : Matrix (Fin x.length) (Fin x.length) K))
        (pairsOf x.length (diffs X) (diffs G)) (vec x.length (fitTo x g))) r ≤ vec x.length ub r) :
    vec x.length (xbarModel lb ub e x g (some (X, G))) =
      vec x.length x - C18.twoLoop ((thetaOf X G)⁻¹ • (1 : Matrix (Fin x.length) (Fin x.length) K))
        (pairsOf x.length (diffs X) (diffs G)) (vec x.length (fitTo x g)) := by
  have hi : kernelInput x g lb ub (some (X, G)) e =
      { x, g := fitTo x g, lb, ub, theta := thetaOf X G, W := buildW x.length (thetaOf X G) (diffs X) (diffs G),
        Minv := buildMinv (thetaOf X G) (diffs X) (diffs G), useFactor := true, epsFsec := e } := by
    simp only [kernelInput, hX, if_true]
  have hSY : (diffs X).length = (diffs G).length := by rw [diffs_length, diffs_length, hXG]
  have hm := lOf_length x.length (diffs X) (diffs G) hSY
  obtain ⟨Mm, hM⟩ := kernel_minv_invertible x.length (thetaOf X G) (diffs X) (diffs G) hθ hSY hS hY hcurv
  obtain ⟨hB, hspd⟩ := C10.kernel_matrix_is_bfgs x.length (thetaOf X G) (diffs X) (diffs G) hθ hSY hS hY hcurv Mm hM
  -- sizes of the kernel input
  obtain ⟨sW, srow, sk, -, -, -⟩ := kernelInput_sizes x g lb ub X G e hX hXG hn
  have hkk : 2 * (X.length - 1) = (lOf x.length (diffs X) (diffs G)).length + (lOf x.length (diffs X) (diffs G)).length := by
    rw [hm, diffs_length]; omega
  have hg : (fitTo x g).length = x.length := fitTo_length x g
  rw [hi] at sW srow sk
  have hsym : (wmat ((lOf x.length (diffs X) (diffs G)).length + (lOf x.length (diffs X) (diffs G)).length)
      ((lOf x.length (diffs X) (diffs G)).length + (lOf x.length (diffs X) (diffs G)).length)
      (buildMinv (thetaOf X G) (diffs X) (diffs G)))ᵀ =
      wmat _ _ (buildMinv (thetaOf X G) (diffs X) (diffs G)) := by
    funext a b
    simp only [transpose_apply, wmat]
    exact buildMinv_symm _ _ _ b a (by have := b.2; omega) (by have := a.2; omega)
  have hMl : (buildMinv (thetaOf X G) (diffs X) (diffs G)).length =
      (lOf x.length (diffs X) (diffs G)).length + (lOf x.length (diffs X) (diffs G)).length := by
    rw [C10.buildMinv_length, hm]
  have hMrow : ∀ r, r < (lOf x.length (diffs X) (diffs G)).length + (lOf x.length (diffs X) (diffs G)).length →
      ((buildMinv (thetaOf X G) (diffs X) (diffs G)).getD r []).length =
        (lOf x.length (diffs X) (diffs G)).length + (lOf x.length (diffs X) (diffs G)).length := by
    intro r hr
    rw [hm]
    apply C10.buildMinv_rows
    rw [List.getD_eq_getElem?_getD, List.getElem?_eq_getElem (by rw [C10.buildMinv_length, ← hm]; exact hr)]
    exact List.getElem_mem _
  -- the context of the Cauchy theorems
  have hq : QCtx (kernelInput x g lb ub (some (X, G)) e) x.length _ Mm := by
    rw [hi]
    exact C09.qctx_of_pivots _ x.length _ Mm rfl hg sW (fun r hr => by rw [srow r hr, hkk]) rfl hMl hMrow hM hsym
  have hpd : ∀ a : Fin x.length → K, a ≠ 0 →
      0 < a ⬝ᵥ (bmat (thetaOf X G) (wmat x.length _ (buildW x.length (thetaOf X G) (diffs X) (diffs G))) Mm *ᵥ a) := by
    intro a ha; rw [hB]; exact hspd.2 a ha
  have hmin : MinCtx (kernelInput x g lb ub (some (X, G)) e) x.length _ Mm (f2orgOf (kernelInput x g lb ub (some (X, G)) e)) := by
    refine ⟨hq, ?_, ?_, ?_⟩
    · rw [hi]; exact box
    · rw [hi]; exact hpd
    · intro dd hne hpat
      have := floor dd hne (by rw [hi] at hpat; exact hpat)
      rw [hi]
      show e * _ ≤ dd ⬝ᵥ (bmat (thetaOf X G) _ Mm *ᵥ dd)
      rw [hB]
      rw [hi] at this
      exact this
  have hk : kOf (kernelInput x g lb ub (some (X, G)) e) =
      (lOf x.length (diffs X) (diffs G)).length + (lOf x.length (diffs X) (diffs G)).length := by
    rw [hi, sk, hkk]
  -- the Cauchy step and the context of the subspace theorems
  have hstep := C08.cauchy_unconstrained_step (kernelInput x g lb ub (some (X, G)) e) x.length _ Mm hk hmin
    (by rw [hi]; exact hG) T
    (by rw [hi]; show _ / (_ ⬝ᵥ (bmat (thetaOf X G) _ Mm *ᵥ _)) < T; rw [hB]; exact hT)
    (by rw [hi]; exact hTbox)
  apply complete_iteration_is_lbfgs lb ub e x g X G hX hXG hn hS hY hcurv hθ box floor _ hN
  rw [hstep, hi]
  show StrictIn lb ub (vsub x (smul (_ / (_ ⬝ᵥ (bmat (thetaOf X G) _ Mm *ᵥ _))) (fitTo x g)))
  rw [hB]
  exact hstrict

end Lbfgsb.C12

/-! ### Non-vacuity (ℚ): the instance of C10Kernel (one pair `s = (1, 0)`, `y = (2, 1)`, `θ = 1`, so `B = [[2, 1], [1, 3/2]]`),
`x = 0`, `g = (1, 1)`, box `[−10, 10]²`, Cauchy point `(−¼, −¼)`. The quasi-Newton point is `−B⁻¹g = (−¼, −½)`: the model
returns it (kernel evaluation) and the theorem applies (its hypotheses hold of this instance). -/
namespace Lbfgsb.C12
open Lbfgsb Matrix CompactKernel Lbfgsb.FullNewton Lbfgsb.C10
section nonvacuous

def exN : SubIn ℚ :=
  { x := [0, 0], g := [1, 1], lb := [-10, -10], ub := [10, 10], theta := 1, W := buildW 2 1 exS exY,
    Minv := buildMinv 1 exS exY, useFactor := true, epsFsec := 0, xc := [-1 / 4, -1 / 4], c := [-3 / 4, -1 / 4] }

example : subspaceMin exN = [-1 / 4, -1 / 2] := by decide +kernel

theorem ex_two_loop : C18.twoLoop ((1 : ℚ)⁻¹ • (1 : Matrix (Fin 2) (Fin 2) ℚ)) (pairsOf 2 exS exY) (vec 2 [1, 1]) =
    vec 2 [1 / 4, 1 / 2] := by
  funext r
  fin_cases r <;>
    simp [C18.twoLoop, C18.sweep1, C18.sweep2, pairsOf, exS, exY, vec, dotProduct, Fin.sum_univ_two] <;> norm_num

theorem ex_W : buildW 2 (1 : ℚ) exS exY = [[2, 1], [1, 0]] := by decide +kernel

/-- the theorem applies to this instance: every hypothesis holds of it -/
example : vec 2 (subspaceMin exN) = vec 2 [-1 / 4, -1 / 2] := by
  have key := newton_point_is_two_loop exN 2 exS exY (by norm_num) rfl rfl one_pos rfl
    (by intro j hj; match j, hj with | 0, _ => rfl)
    (by intro j hj; match j, hj with | 0, _ => rfl)
    (by
      intro j hj
      match j, hj with
      | 0, _ =>
        refine ⟨fun e => ?_, ?_⟩
        · have := congrFun e 0
          simp [vec, exS] at this
        · simp [vec, exS, exY, dotProduct, Fin.sum_univ_two])
    exMm ex_hM rfl rfl rfl rfl rfl
    (by
      show vec 2 [-3 / 4, -1 / 4] = (wmat 2 2 (buildW 2 (1 : ℚ) exS exY))ᵀ *ᵥ (vec 2 [-1 / 4, -1 / 4] - vec 2 [0, 0])
      rw [ex_W]
      funext r
      fin_cases r <;> simp [vec, wmat, mulVec, dotProduct, Fin.sum_univ_two] <;> norm_num)
    (by simp [exN, StrictIn]; norm_num)
    (by
      show ∀ r : Fin 2, vec 2 ([-10, -10] : List ℚ) r ≤ (vec 2 ([0, 0] : List ℚ) - C18.twoLoop ((1 : ℚ)⁻¹ • (1 : Matrix (Fin 2) (Fin 2) ℚ))
          (pairsOf 2 exS exY) (vec 2 ([1, 1] : List ℚ))) r ∧ (vec 2 ([0, 0] : List ℚ) - C18.twoLoop ((1 : ℚ)⁻¹ • (1 : Matrix (Fin 2) (Fin 2) ℚ))
          (pairsOf 2 exS exY) (vec 2 ([1, 1] : List ℚ))) r ≤ vec 2 ([10, 10] : List ℚ) r
      rw [ex_two_loop]
      intro r
      fin_cases r <;> simp [vec] <;> norm_num)
  rw [key]
  show vec 2 ([0, 0] : List ℚ) - C18.twoLoop ((1 : ℚ)⁻¹ • (1 : Matrix (Fin 2) (Fin 2) ℚ)) (pairsOf 2 exS exY) (vec 2 ([1, 1] : List ℚ)) = _
  rw [ex_two_loop]
  funext r
  fin_cases r <;> simp [vec] <;> norm_num

end nonvacuous
end Lbfgsb.C12
