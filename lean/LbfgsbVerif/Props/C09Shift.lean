/-
  C09 — the subspace point does not depend on where the origin of the variables is put.

  `subspace_point_shift`: the model's `subspaceMin` on the input with `x`, `x_c`, `lb`, `ub` translated by one constant (same gradient,
  same matrices, same auxiliary vector) returns the translated point. No hypothesis: the positions enter the routine only through
  the differences `x_c − x`, `u − x_c`, `l − x_c`, the tests `x_c = u`, `x_c = l`, and the final projection.
-/
import LbfgsbVerif.Props.C08Shift

set_option linter.unusedSectionVars false

namespace Lbfgsb.C09
open Lbfgsb Lbfgsb.Units
variable {K : Type} [Field K] [LinearOrder K] [IsStrictOrderedRing K]
attribute [local instance] fieldFloatLike

def shiftSub (c : K) (i : SubIn K) : SubIn K :=
  { i with x := i.x.map (· + c), lb := i.lb.map (· + c), ub := i.ub.map (· + c), xc := i.xc.map (· + c) }

theorem feq_shift (c x y : K) : feq (x + c) (y + c) = feq x y := by
  unfold feq
  simp only [add_lt_add_iff_right]

theorem freeMask_shift (c : K) (xc lb ub : Vec K) :
    freeMask (xc.map (· + c)) (lb.map (· + c)) (ub.map (· + c)) = freeMask xc lb ub := by
  induction xc generalizing lb ub with
  | nil => cases lb <;> cases ub <;> simp [freeMask]
  | cons a as ih =>
    cases lb with
    | nil => simp [freeMask]
    | cons l ls =>
      cases ub with
      | nil => simp [freeMask]
      | cons u us =>
        simp only [List.map_cons, freeMask, isFree, feq_shift, ih ls us]

theorem vsub_shift_both (c : K) (a b : Vec K) : vsub (a.map (· + c)) (b.map (· + c)) = vsub a b := by
  induction a generalizing b with
  | nil => simp [vsub, vzip]
  | cons x xs ih =>
    cases b with
    | nil => simp [vsub, vzip]
    | cons y ys =>
      have := ih ys
      simp only [vsub, vzip, List.map_cons] at this ⊢
      rw [this, add_sub_add_right_eq_sub]

theorem vadd_shift_left (c : K) (a v : Vec K) : vadd (a.map (· + c)) v = (vadd a v).map (· + c) := by
  induction a generalizing v with
  | nil => simp [vadd, vzip]
  | cons x xs ih =>
    cases v with
    | nil => simp [vadd, vzip]
    | cons y ys =>
      have := ih ys
      simp only [vadd, vzip, List.map_cons] at this ⊢
      rw [this]
      congr 1
      ring

theorem alphaStar_cand_shift (c : K) (xc d lb ub : Vec K) (mask : List Bool) :
    alphaStar.cand (xc.map (· + c)) d (lb.map (· + c)) (ub.map (· + c)) mask = alphaStar.cand xc d lb ub mask := by
  induction xc generalizing d lb ub mask with
  | nil => cases d <;> cases lb <;> cases ub <;> cases mask <;> simp [alphaStar.cand]
  | cons xi xs ih =>
    cases d with
    | nil => simp [alphaStar.cand]
    | cons di ds =>
      cases lb with
      | nil => simp [alphaStar.cand]
      | cons l ls =>
        cases ub with
        | nil => simp [alphaStar.cand]
        | cons u us =>
          cases mask with
          | nil => simp [alphaStar.cand]
          | cons m ms =>
            simp only [List.map_cons, alphaStar.cand, ih ds ls us ms, add_sub_add_right_eq_sub]

theorem alphaStar_shift (c : K) (xc d lb ub : Vec K) (mask : List Bool) :
    alphaStar (xc.map (· + c)) d (lb.map (· + c)) (ub.map (· + c)) mask = alphaStar xc d lb ub mask := by
  unfold alphaStar
  rw [alphaStar_cand_shift]

/-- **C09 (origin)** -/
theorem subspace_point_shift (c : K) (i : SubIn K) :
    subspaceMin (shiftSub c i) = (subspaceMin i).map (· + c) := by
  unfold subspaceMin shiftSub
  simp only [freeMask_shift, vsub_shift_both, alphaStar_shift, vadd_shift_left, C08.clip_shift]
  split
  · rfl
  · rfl

end Lbfgsb.C09

namespace Lbfgsb.C09
open Lbfgsb
attribute [local instance] fieldFloatLike

/-! ### A concrete instance (ℚ): two variables, the first at its lower bound at the Cauchy point, the second free; moved by 7. -/
def sS : SubIn ℚ :=
  { x := [0, 0], g := [1, -2], lb := [0, -1], ub := [1, 3], theta := 2, W := [[0], [0]], Minv := [[0]], useFactor := false, epsFsec := 0,
    xc := [0, 1 / 2], c := [0] }

example : subspaceMin (shiftSub 7 sS) = [7, 8] := by
  rw [subspace_point_shift]
  decide +kernel

end Lbfgsb.C09
