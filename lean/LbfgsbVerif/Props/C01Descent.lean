/-
  C01 — at a non-stationary point the iteration has a descent direction (exact arithmetic).

  The chain behind "the solver never stalls at a point that is far from stationary":
    projected gradient ≠ 0
      ⇒ (C01 `nonstationary_moves`) the projected steepest-descent direction is not zero
      ⇒ (C08 `gcp_model_neg`) the Cauchy step is positive and the model value at the Cauchy point
         is strictly negative
      ⇒ (C09 `direction_descent`) after the truncated Newton step on the free variables the search
         direction `d = x̄ − x` satisfies `gᵀd < 0`,
  so a line search with a sufficient-decrease condition can accept a positive step (what SciPy's
  DCSRCH does with it in floating point is decided by the convex-run search, harness/props/c01.py).
  Hypotheses: those of C08 `gcp_first_local_min` (`MinCtx`) and of C09 `direction_descent`.
-/
import LbfgsbVerif.Props.C08Min
import LbfgsbVerif.Props.C09Model
import LbfgsbVerif.Props.C09Run

namespace Lbfgsb.C01
open Lbfgsb Matrix
variable {K : Type} [Field K] [LinearOrder K] [IsStrictOrderedRing K]

/-- **C01 (c)** non-stationary ⇒ strict decrease of the model at the generalized Cauchy point -/
theorem nonstationary_cauchy_decrease (i : CauchyIn K) (n k : Nat) (Mm : Matrix (Fin k) (Fin k) K)
    (hk : kOf i = k) (hc : MinCtx i n k Mm (f2orgOf i)) (hns : projgr i.x i.g i.lb i.ub ≠ 0) :
    qmodel (vec n i.g) (bmat i.theta (wmat n k i.W) Mm) (vec n (cauchy i).1 - vec n i.x) < 0 := by
  have hg : i.g.length = i.x.length := by rw [hc.q.hg, hc.q.hx]
  obtain ⟨d, hd, hne⟩ := nonstationary_moves i.x i.g i.lb i.ub hc.box hg hns
  apply C08.gcp_model_neg i n k Mm hk hc
  intro h0
  apply hne
  obtain ⟨j, hj, rfl⟩ := List.getElem_of_mem hd
  obtain ⟨hll, hul⟩ := inBoxF_lengths hc.box
  have hlen : (cauchyD0 (breakpoints i.x i.g i.lb i.ub) i.g).length = n := by
    rw [C08.cauchyD0_length _ _ (by rw [C08.breakpoints_length _ _ _ _ hg hll hul, hg]), hc.q.hg]
  have := congrFun h0 ⟨j, by rw [← hlen]; exact hj⟩
  simpa [vec, List.getD_eq_getElem?_getD, List.getElem?_eq_getElem hj] using this

/-- **C01 (d)** non-stationary ⇒ the search direction is a descent direction -/
theorem nonstationary_descent (i : CauchyIn K) (n k : Nat) (Mm : Matrix (Fin k) (Fin k) K)
    (hk : kOf i = k) (hc : MinCtx i n k Mm (f2orgOf i)) (hns : projgr i.x i.g i.lb i.ub ≠ 0)
    (u : Fin n → K) (free : Fin n → Bool) (hact : ∀ r, free r = false → u r = 0)
    (hnewton : ∀ r, free r = true →
      (vec n i.g + bmat i.theta (wmat n k i.W) Mm *ᵥ ((vec n (cauchy i).1 - vec n i.x) + u)) r = 0)
    (α : K) (h0 : 0 ≤ α) (h1 : α ≤ 1) :
    vec n i.g ⬝ᵥ ((vec n (cauchy i).1 - vec n i.x) + α • u) < 0 :=
  C09.direction_descent _ _ (bmat_symm _ _ _ hc.q.hsym)
    (fun a => by
      by_cases ha : a = 0
      · rw [ha]; simp
      · exact le_of_lt (hc.pd a ha))
    _ u free hact hnewton (nonstationary_cauchy_decrease i n k Mm hk hc hns) α h0 h1

/-- **C01 (e)** the same for the two executable models chained as the driver chains the routines:
`x̄ = subspaceMin` applied to the output of `cauchy`. At a non-stationary iterate `gᵀ(x̄ − x) < 0`. -/
theorem model_iteration_descent (i : CauchyIn K) (n k : Nat) (Mm Minvm : Matrix (Fin k) (Fin k) K)
    (hk : kOf i = k) (hc : MinCtx i n k Mm (f2orgOf i)) (hns : projgr i.x i.g i.lb i.ub ≠ 0)
    (j : SubIn K) (hj : j.toCauchyIn = i) (hxc : j.xc = (cauchy i).1) (hsub : SubCtx j n k Mm Minvm) :
    vec n i.g ⬝ᵥ (vec n (subspaceMin j) - vec n i.x) < 0 := by
  have hdec := nonstationary_cauchy_decrease i n k Mm hk hc hns
  have hpsd : ∀ a : Fin n → K, 0 ≤ a ⬝ᵥ (bmat i.theta (wmat n k i.W) Mm *ᵥ a) := by
    intro a
    by_cases ha : a = 0
    · rw [ha]; simp
    · exact le_of_lt (hc.pd a ha)
  have := C09.subspace_direction_descent j n k Mm Minvm hsub hc.q.hsym
    (by rw [hj]; exact hpsd) (by rw [hj, hxc]; exact hdec)
  rw [hj] at this
  exact this

end Lbfgsb.C01
