/-
  C11 — the largest feasible step does not depend on the units of the variables: with `x`, `d`, `lb`, `ub` all multiplied by `b > 0`
  (the objective's units do not enter) `max_allowed_steplength` is unchanged — the ratios `(u − x)/d`, `(l − x)/d` are invariant and
  so are the tests `d = 0`, `d > 0`.
-/
import LbfgsbVerif.Proofs.UnitsSub
import LbfgsbVerif.Props.C11

set_option linter.unusedSectionVars false

namespace Lbfgsb.C11
open Lbfgsb Lbfgsb.Units
variable {K : Type} [Field K] [LinearOrder K] [IsStrictOrderedRing K]
attribute [local instance] fieldFloatLike

theorem maxAllowedStep_cand_units (b : K) (hb : 0 < b) (x d lb ub : Vec K) :
    maxAllowedStep.cand (smul b x) (smul b d) (smul b lb) (smul b ub) = maxAllowedStep.cand x d lb ub := by
  have hbne : b ≠ 0 := ne_of_gt hb
  induction x generalizing d lb ub with
  | nil => cases d <;> cases lb <;> cases ub <;> simp [maxAllowedStep.cand, smul]
  | cons xi xs ih =>
    cases d with
    | nil => simp [maxAllowedStep.cand, smul]
    | cons di ds =>
      cases lb with
      | nil => simp [maxAllowedStep.cand, smul]
      | cons l ls =>
        cases ub with
        | nil => simp [maxAllowedStep.cand, smul]
        | cons u us =>
          have := ih ds ls us
          simp only [smul, List.map_cons, maxAllowedStep.cand] at this ⊢
          rw [this]
          have hz : feq (b * di) 0 = feq di 0 := by
            have := feq_smul b di 0 hb
            rwa [mul_zero] at this
          have hp : (0 < b * di) ↔ (0 < di) := by
            constructor
            · intro h
              by_contra hn
              have : b * di ≤ 0 := mul_nonpos_of_nonneg_of_nonpos (le_of_lt hb) (not_lt.1 hn)
              exact absurd h (not_lt.2 this)
            · intro h; exact mul_pos hb h
          rw [hz]
          split
          · rfl
          · by_cases hd : 0 < di
            · rw [if_pos hd, if_pos (hp.2 hd), ← mul_sub, mul_div_mul_left _ _ hbne]
            · rw [if_neg hd, if_neg (fun h => hd (hp.1 h)), ← mul_sub, mul_div_mul_left _ _ hbne]

/-- **C11 (units)** -/
theorem maxAllowedStep_units (b : K) (hb : 0 < b) (x d lb ub : Vec K) (maxStep : K) (nit : Nat) :
    maxAllowedStep (smul b x) (smul b d) (smul b lb) (smul b ub) maxStep nit = maxAllowedStep x d lb ub maxStep nit := by
  unfold maxAllowedStep
  rw [maxAllowedStep_cand_units b hb]

example : maxAllowedStep (smul 5 [0, 0]) (smul 5 [1, -2]) (smul 5 [-1, -1]) (smul 5 [1, 1]) (100 : ℚ) 3 = 1 / 2 := by
  rw [maxAllowedStep_units 5 (by norm_num)]
  decide +kernel

/-- the candidate steps do not depend on where the origin of the variables is put -/
theorem maxAllowedStep_cand_shift (c : K) (x d lb ub : Vec K) :
    maxAllowedStep.cand (x.map (· + c)) d (lb.map (· + c)) (ub.map (· + c)) = maxAllowedStep.cand x d lb ub := by
  induction x generalizing d lb ub with
  | nil => cases d <;> cases lb <;> cases ub <;> simp [maxAllowedStep.cand]
  | cons xi xs ih =>
    cases d with
    | nil => simp [maxAllowedStep.cand]
    | cons di ds =>
      cases lb with
      | nil => simp [maxAllowedStep.cand]
      | cons l ls =>
        cases ub with
        | nil => simp [maxAllowedStep.cand]
        | cons u us =>
          have := ih ds ls us
          simp only [List.map_cons, maxAllowedStep.cand] at this ⊢
          rw [this, add_sub_add_right_eq_sub, add_sub_add_right_eq_sub]

/-- **C11 (origin)** — the largest feasible step is the same after a translation of the variables and of the box -/
theorem maxAllowedStep_shift (c : K) (x d lb ub : Vec K) (maxStep : K) (nit : Nat) :
    maxAllowedStep (x.map (· + c)) d (lb.map (· + c)) (ub.map (· + c)) maxStep nit = maxAllowedStep x d lb ub maxStep nit := by
  unfold maxAllowedStep
  rw [maxAllowedStep_cand_shift c]

example : maxAllowedStep ([0, 0].map (· + 7)) [1, -2] ([-1, -1].map (· + 7)) ([1, 1].map (· + 7)) (100 : ℚ) 3 = 1 / 2 := by
  rw [maxAllowedStep_shift 7]
  decide +kernel

end Lbfgsb.C11
