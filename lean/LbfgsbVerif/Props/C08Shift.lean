/-
  C08 — the Cauchy point does not depend on where the origin of the variables is put.

  `cauchy_point_shift`: an input and the same input with `x`, `lb`, `ub` translated by one constant `c` (same gradient, same
  limited-memory model), for both of which the context of `gcp_first_local_min` holds, have Cauchy points related by
  `x_cp' = x_cp + c`. Proof: the projected path of the second input is the translated path of the first, so the model value along
  the path — a function of the displacement `path − x` only — is the same function of the parameter; the first local minimiser is
  unique (`firstLocalMin_unique`).
-/
import LbfgsbVerif.Proofs.Units
import LbfgsbVerif.Props.C04Shift

set_option linter.unusedSectionVars false

namespace Lbfgsb.C08
open Lbfgsb Matrix Lbfgsb.Units
variable {K : Type} [Field K] [LinearOrder K] [IsStrictOrderedRing K]
attribute [local instance] fieldFloatLike

/-- the same problem with the origin of the variables moved by `c` -/
def shiftIn (c : K) (i : CauchyIn K) : CauchyIn K :=
  { i with x := i.x.map (· + c), lb := i.lb.map (· + c), ub := i.ub.map (· + c) }

theorem vsub_shift_left (c : K) (x v : Vec K) : vsub (x.map (· + c)) v = (vsub x v).map (· + c) := by
  induction x generalizing v with
  | nil => simp [vsub, vzip]
  | cons xi xs ih =>
    cases v with
    | nil => simp [vsub, vzip]
    | cons vi vs =>
      have := ih vs
      simp only [vsub, vzip, List.map_cons] at this ⊢
      rw [this]
      congr 1
      ring

theorem clip_shift (c : K) (p lb ub : Vec K) :
    clip (p.map (· + c)) (lb.map (· + c)) (ub.map (· + c)) = (clip p lb ub).map (· + c) := by
  induction p generalizing lb ub with
  | nil => cases lb <;> cases ub <;> simp [clip]
  | cons pi ps ih =>
    cases lb with
    | nil => rw [List.map_nil, C04.clip_nil_lb, C04.clip_nil_lb]
    | cons l ls =>
      cases ub with
      | nil => rw [List.map_nil, C04.clip_nil_ub, C04.clip_nil_ub]
      | cons u us =>
        simp only [clip, List.map_cons]
        rw [ih ls us, C04.clip1_shift]

theorem pathAt_shift (c : K) (i : CauchyIn K) (τ : K) : pathAt (shiftIn c i) τ = (pathAt i τ).map (· + c) := by
  unfold pathAt shiftIn
  simp only
  rw [vsub_shift_left, clip_shift]

theorem vec_sub_shift (n : Nat) (c : K) (p x : Vec K) (hp : p.length = n) (hx : x.length = n) :
    vec n (p.map (· + c)) - vec n (x.map (· + c)) = vec n p - vec n x := by
  funext r
  have hrp : (r : Nat) < p.length := by rw [hp]; exact r.2
  have hrx : (r : Nat) < x.length := by rw [hx]; exact r.2
  simp only [vec, Pi.sub_apply, List.getD_eq_getElem?_getD, List.getElem?_map, List.getElem?_eq_getElem hrp,
    List.getElem?_eq_getElem hrx, Option.map_some, Option.getD_some]
  ring

theorem phi_shift (c : K) (i : CauchyIn K) (n k : Nat) (Mm : Matrix (Fin k) (Fin k) K)
    (hxl : i.x.length = n) (hgl : i.g.length = n) (τ : K) :
    phi (shiftIn c i) n k Mm τ = phi i n k Mm τ := by
  unfold phi
  have hpl : (pathAt i τ).length = n := by rw [pathAt_length i (by rw [hgl, hxl]), hxl]
  rw [pathAt_shift]
  show qmodel (vec n i.g) (bmat i.theta (wmat n k i.W) Mm) (vec n ((pathAt i τ).map (· + c)) - vec n (i.x.map (· + c))) = _
  rw [vec_sub_shift n c _ _ hpl hxl]

/-- **C08 (origin)** -/
theorem cauchy_point_shift (c : K) (i : CauchyIn K) (n k : Nat) (Mm : Matrix (Fin k) (Fin k) K)
    (hk : kOf i = k) (hc : MinCtx i n k Mm (f2orgOf i)) (hc' : MinCtx (shiftIn c i) n k Mm (f2orgOf (shiftIn c i))) :
    (cauchy (shiftIn c i)).1 = (cauchy i).1.map (· + c) := by
  obtain ⟨tF, h0, hdec, hmin, hp, -⟩ := gcp_first_local_min i n k Mm hk hc
  have hφ : phi (shiftIn c i) n k Mm = phi i n k Mm := funext (fun τ => phi_shift c i n k Mm hc.q.hx hc.q.hg τ)
  have hflm : FirstLocalMin (phi (shiftIn c i) n k Mm) tF := by rw [hφ]; exact ⟨h0, hdec, hmin⟩
  have hk' : kOf (shiftIn c i) = k := hk
  rw [gcp_is_the_first_local_min (shiftIn c i) n k Mm hk' hc' tF hflm, hp]
  exact pathAt_shift c i tF

theorem inBoxF_shift (c : K) (lb ub p : Vec K) (h : InBoxF lb ub p) :
    InBoxF (lb.map (· + c)) (ub.map (· + c)) (p.map (· + c)) := by
  induction p generalizing lb ub with
  | nil => cases lb <;> cases ub <;> simp_all [InBoxF]
  | cons x xs ih =>
    cases lb with
    | nil => cases ub <;> simp [InBoxF] at h
    | cons l ls =>
      cases ub with
      | nil => simp [InBoxF] at h
      | cons u us =>
        simp only [InBoxF] at h
        have := ih ls us h.2
        simp only [List.map_cons, InBoxF] at this ⊢
        exact ⟨⟨add_le_add_left h.1.1 c, add_le_add_left h.1.2 c⟩, this⟩

/-- **C08 (origin, empty memory)** for every feasible input without pairs, every `θ > 0` and every translation (no floor: `epsFsec = 0`) -/
theorem cauchy_shift_nofactor (c : K) (i : CauchyIn K) (n : Nat) (hθ : 0 < i.theta)
    (hx : i.x.length = n) (hg : i.g.length = n) (hW : i.W.length = n)
    (hrow : ∀ r, r < n → (i.W.getD r []).length = kOf i)
    (huf : i.useFactor = false) (he : i.epsFsec = 0) (hbox : InBoxF i.lb i.ub i.x) :
    (cauchy (shiftIn c i)).1 = (cauchy i).1.map (· + c) := by
  have hc := minCtx_nopairs i n (kOf i) hx hg hW hrow huf hθ hbox (f2orgOf i) (by
    intro dd hne _
    rw [he, zero_mul]
    exact mul_nonneg (le_of_lt hθ) (Finset.sum_nonneg fun j _ => mul_self_nonneg (dd j)))
  have hc' := minCtx_nopairs (shiftIn c i) n (kOf i) (by simp [shiftIn, hx]) hg hW hrow huf hθ
    (inBoxF_shift c _ _ _ hbox) (f2orgOf (shiftIn c i)) (by
    intro dd hne _
    show (shiftIn c i).epsFsec * _ ≤ _
    have : (shiftIn c i).epsFsec = 0 := he
    rw [this, zero_mul]
    exact mul_nonneg (le_of_lt hθ) (Finset.sum_nonneg fun j _ => mul_self_nonneg (dd j)))
  exact cauchy_point_shift c i n (kOf i) 0 rfl hc hc'

/-! ### Non-vacuity (ℚ): `x = 0`, `g = (−1, 2)`, box `[−1, 1]²`, `θ = 1`, moved by 7. -/
section nonvacuous

def sI : CauchyIn ℚ :=
  { x := [0, 0], g := [-1, 2], lb := [-1, -1], ub := [1, 1], theta := 1, W := [[0], [0]], Minv := [[0]], useFactor := false, epsFsec := 0 }

example : (cauchy (shiftIn 7 sI)).1 = (cauchy sI).1.map (· + 7) :=
  cauchy_shift_nofactor 7 sI 2 (by norm_num [sI]) rfl rfl rfl
    (by intro r hr; match r, hr with | 0, _ => rfl | 1, _ => rfl) rfl rfl (by simp [sI, InBoxF])

end nonvacuous

end Lbfgsb.C08
