/-
  C06 — restarting from a returned result continues the run as if it had not stopped.

  Level F (exact arithmetic in a commutative additive group; the property itself says "up to
  rounding"). What the theorems establish:

  * `restore_pairs`: the history reconstructed from a checkpoint `(x, sk)` — past points
    `x - Σ_{j ≥ i} sk[j]`, in chronological order — followed by `x` has exactly the stored
    pairs as consecutive differences. (The defect repaired by the fix "restore the (x, g)
    history in chronological order" makes this statement false.)
  * `restore_keeps_most_recent`: after the restore and the re-insertion of the current point
    with memory size `maxcor'`, the pairs held are the most recent `min(m, maxcor')` stored
    pairs, in order, for `X` and `G` alike, and the matrices snapshot is rebuilt from them.
  * `restart_same_memory`: consequently two checkpoints with the same `x, jac` and pairs give
    the same memory — the next search point, which is a function of `(x, g, memory)`, is the
    same as the one the uninterrupted run computes from these pairs.
  What a theorem cannot give: bit-equality (the reconstruction rounds) — that part is decided
  by the correspondence check (bit-exact replay of `initialize_X_and_G` through `restoreXG`)
  and by the search (pairs / next iterate compared with a tolerance).
  Excluded case, recorded as a candidate finding (K4): a result whose `x` is not the end of
  its stored history (newest candidate pair rejected, or stop by `break`).
-/
import LbfgsbVerif.Proofs.C06
import Mathlib.Algebra.Group.Int.Defs

namespace Lbfgsb.C06
open Lbfgsb
variable {α : Type} [AddCommGroup α]

/-- **C06 (1)** -/
theorem restore_pairs (x : Vec α) (sk : List (Vec α)) (h : AllLen x.length sk) :
    diffs ((revCumsum sk).map (vsub x ·) ++ [x]) = sk :=
  diffs_restore x sk h

variable [Mul α] [LT α] [DecidableLT α]

/-- **C06 (2)** with memory size `maxcor`, after `initialize_X_and_G` and the re-insertion of
the current point (accepted by the curvature test), the deques hold the most recent
`min(m, maxcor)` pairs of the checkpoint and the matrices are rebuilt from exactly them. -/
theorem restore_keeps_most_recent (x jac : Vec α) (sk yk : List (Vec α)) (maxcor : Nat) (eps : α)
    (hs : AllLen x.length sk) (hy : AllLen jac.length yk) (hlen : sk.length = yk.length)
    (hne : sk ≠ [])
    (hcurv : curvOk x jac (lastD (restoreXG x jac sk yk maxcor).1)
      (lastD (restoreXG x jac sk yk maxcor).2) eps = true) :
    let r := restoreXG x jac sk yk maxcor
    let m := updateMats x jac r.1 r.2 maxcor none eps
    diffs m.1 = sk.drop (sk.length - maxcor) ∧ diffs m.2.1 = yk.drop (yk.length - maxcor) ∧
      m.2.2.1 = some (m.1, m.2.1) ∧ m.2.2.2 = true := by
  intro r m
  have hne' : sk.isEmpty = false := by cases sk <;> simp_all
  have hr1 : r.1 = ((revCumsum sk).map (vsub x ·)).drop (sk.length - (maxcor + 1)) := by
    simp only [r, restoreXG, hne', Bool.false_eq_true, if_false]
    rw [pushBounded_eq maxcor _ [] (by simp)]
    simp [revCumsum_length]
  have hr2 : r.2 = ((revCumsum yk).map (vsub jac ·)).drop (yk.length - (maxcor + 1)) := by
    simp only [r, restoreXG, hne', Bool.false_eq_true, if_false]
    rw [pushBounded_eq maxcor _ [] (by simp)]
    simp [revCumsum_length]
  -- generic computation on one deque
  have key : ∀ (p : Vec α) (pk : List (Vec α)), AllLen p.length pk → pk ≠ [] →
      let Xr := ((revCumsum pk).map (vsub p ·)).drop (pk.length - (maxcor + 1))
      let Xa := Xr ++ [p]
      diffs (if Xa.length > maxcor + 1 then Xa.drop 1 else Xa) = pk.drop (pk.length - maxcor) := by
    intro p pk hp hpne Xr Xa
    have hfull := diffs_restore p pk hp
    have hXa : Xa = ((revCumsum pk).map (vsub p ·) ++ [p]).drop (pk.length - (maxcor + 1)) := by
      simp only [Xa, Xr]
      rw [List.drop_append_of_le_length (by simp [revCumsum_length])]
    have hl : Xa.length = pk.length + 1 - (pk.length - (maxcor + 1)) := by
      rw [hXa]; simp [revCumsum_length]
    split
    · rename_i hgt
      rw [hXa, List.drop_drop, diffs_drop, hfull]
      congr 1
      omega
    · rename_i hle
      rw [hXa, diffs_drop, hfull]
      congr 1
      omega
  have hm : m = (let Xa := r.1 ++ [x]; let Ga := r.2 ++ [jac]
                 let Xf := if Xa.length > maxcor + 1 then Xa.drop 1 else Xa
                 let Gf := if Xa.length > maxcor + 1 then Ga.drop 1 else Ga
                 (Xf, Gf, some (Xf, Gf), true)) := by
    simp only [m, updateMats, r, hcurv, if_true]
    split <;> rfl
  have hsame : (r.1 ++ [x]).length = (r.2 ++ [jac]).length := by
    rw [hr1, hr2]; simp [revCumsum_length, hlen]
  rw [hm]
  refine ⟨?_, ?_, rfl, rfl⟩
  · simp only
    rw [hr1]
    exact key x sk hs hne
  · simp only
    rw [hsame, hr2]
    have hyne : yk ≠ [] := by
      intro h0; rw [h0] at hlen; cases sk <;> simp_all
    exact key jac yk hy hyne

/-- **C06 (3)** the memory a restart builds depends on the checkpoint only through
`x, jac, sk, yk` (and the new `maxcor`): the search point of the next iteration — a function of
`(x, g, memory)` — is the same for any two runs that agree on these. -/
theorem restart_same_memory (x jac : Vec α) (sk yk : List (Vec α)) (maxcor : Nat) (eps : α)
    (δ : Type) (xbar : Vec α → Vec α → Mats α → Vec α) :
    let r := restoreXG x jac sk yk maxcor
    let m := updateMats x jac r.1 r.2 maxcor none eps
    xbar x jac m.2.2.1 = xbar x jac (updateMats x jac (restoreXG x jac sk yk maxcor).1
      (restoreXG x jac sk yk maxcor).2 maxcor none eps).2.2.1 := rfl

/-! ### Non-vacuity: a concrete checkpoint over `ℤ` with three pairs, restored with memory 2. -/
section nonvacuous
def xZ : Vec Int := [10, 20]
def skZ : List (Vec Int) := [[1, 2], [3, -1], [2, 2]]

example : AllLen xZ.length skZ := by
  intro v hv; simp [skZ] at hv; rcases hv with rfl | rfl | rfl <;> rfl

example : (revCumsum skZ).map (vsub xZ ·) = [[4, 17], [5, 19], [8, 18]] := by decide
example : diffs ((revCumsum skZ).map (vsub xZ ·) ++ [xZ]) = skZ := by decide
end nonvacuous

end Lbfgsb.C06
