/-
  C06 — restarting from a returned result continues the run as if it had not stopped.

  Level F (exact arithmetic in a commutative additive group; the property itself says "up to
  rounding"). What the theorems establish:

  * `restore_pairs`: the history reconstructed from a checkpoint `(x, sk)` — past points
    `x - Σ_{j ≥ i} sk[j]`, in chronological order — followed by `x` has exactly the stored
    pairs as consecutive differences. (The defect repaired by the fix "restore the (x, g)
    history in chronological order" makes this statement false.)
  * `restore_keeps_most_recent`: after the restore and the re-insertion of the current point
    with memory size `maxcor'`, the pairs held are the most recent `min(m, maxcor')` stored
    pairs, in order, for `X` and `G` alike, and the matrices snapshot is rebuilt from them.
  * `restore_roundtrip`: conversely, the history rebuilt from the pairs of a result whose `x` is
    the end of its stored history IS that history — the restart holds the memory of the
    uninterrupted run, so the next search point, a function of `(x, g, memory)`, is the same.
  What a theorem cannot give: bit-equality (the reconstruction rounds) — that part is decided
  by the correspondence check (bit-exact replay of `initialize_X_and_G` through `restoreXG`)
  and by the search (pairs / next iterate compared with a tolerance).
  Excluded case, recorded as a candidate finding (K4): a result whose `x` is not the end of
  its stored history (newest candidate pair rejected, or stop by `break`).
-/
import LbfgsbVerif.Proofs.C06
import Mathlib.Algebra.Group.Int.Defs

namespace Lbfgsb.C06
open Lbfgsb
variable {α : Type} [AddCommGroup α]

/-- **C06 (1)** -/
theorem restore_pairs (x : Vec α) (sk : List (Vec α)) (h : AllLen x.length sk) :
    diffs ((revCumsum sk).map (vsub x ·) ++ [x]) = sk :=
  diffs_restore x sk h

variable [Mul α] [LT α] [DecidableLT α]

/-- **C06 (2)** with memory size `maxcor`, after `initialize_X_and_G` and the re-insertion of
the current point (accepted by the curvature test), the deques hold the most recent
`min(m, maxcor)` pairs of the checkpoint and the matrices are rebuilt from exactly them. -/
theorem restore_keeps_most_recent (x jac : Vec α) (sk yk : List (Vec α)) (maxcor : Nat) (eps : α)
    (hs : AllLen x.length sk) (hy : AllLen jac.length yk) (hlen : sk.length = yk.length)
    (hne : sk ≠ [])
    (hcurv : curvOk x jac (lastD (restoreXG x jac sk yk maxcor).1)
      (lastD (restoreXG x jac sk yk maxcor).2) eps = true) :
    let r := restoreXG x jac sk yk maxcor
    let m := updateMats x jac r.1 r.2 maxcor none eps
    diffs m.1 = sk.drop (sk.length - maxcor) ∧ diffs m.2.1 = yk.drop (yk.length - maxcor) ∧
      m.2.2.1 = some (m.1, m.2.1) ∧ m.2.2.2 = true := by
  intro r m
  have hne' : sk.isEmpty = false := by cases sk <;> simp_all
  have hr1 : r.1 = ((revCumsum sk).map (vsub x ·)).drop (sk.length - (maxcor + 1)) := by
    simp only [r, restoreXG, hne', Bool.false_eq_true, if_false]
    rw [pushBounded_eq maxcor _ [] (by simp)]
    simp [revCumsum_length]
  have hr2 : r.2 = ((revCumsum yk).map (vsub jac ·)).drop (yk.length - (maxcor + 1)) := by
    simp only [r, restoreXG, hne', Bool.false_eq_true, if_false]
    rw [pushBounded_eq maxcor _ [] (by simp)]
    simp [revCumsum_length]
  -- generic computation on one deque
  have key : ∀ (p : Vec α) (pk : List (Vec α)), AllLen p.length pk → pk ≠ [] →
      let Xr := ((revCumsum pk).map (vsub p ·)).drop (pk.length - (maxcor + 1))
      let Xa := Xr ++ [p]
      diffs (if Xa.length > maxcor + 1 then Xa.drop 1 else Xa) = pk.drop (pk.length - maxcor) := by
    intro p pk hp hpne Xr Xa
    have hfull := diffs_restore p pk hp
    have hXa : Xa = ((revCumsum pk).map (vsub p ·) ++ [p]).drop (pk.length - (maxcor + 1)) := by
      simp only [Xa, Xr]
      rw [List.drop_append_of_le_length (by simp [revCumsum_length])]
    have hl : Xa.length = pk.length + 1 - (pk.length - (maxcor + 1)) := by
      rw [hXa]; simp [revCumsum_length]
    split
    · rename_i hgt
      rw [hXa, List.drop_drop, diffs_drop, hfull]
      congr 1
      omega
    · rename_i hle
      rw [hXa, diffs_drop, hfull]
      congr 1
      omega
  have hm : m = (let Xa := r.1 ++ [x]; let Ga := r.2 ++ [jac]
                 let Xf := if Xa.length > maxcor + 1 then Xa.drop 1 else Xa
                 let Gf := if Xa.length > maxcor + 1 then Ga.drop 1 else Ga
                 (Xf, Gf, some (Xf, Gf), true)) := by
    simp only [m, updateMats, r, hcurv, if_true]
    split <;> rfl
  have hsame : (r.1 ++ [x]).length = (r.2 ++ [jac]).length := by
    rw [hr1, hr2]; simp [revCumsum_length, hlen]
  rw [hm]
  refine ⟨?_, ?_, rfl, rfl⟩
  · simp only
    rw [hr1]
    exact key x sk hs hne
  · simp only
    rw [hsame, hr2]
    have hyne : yk ≠ [] := by
      intro h0; rw [h0] at hlen; cases sk <;> simp_all
    exact key jac yk hy hyne

/-- a list of equally long vectors is determined by its consecutive differences and its last
element -/
theorem eq_of_diffs_last (n : Nat) (A : List (Vec α)) :
    ∀ B : List (Vec α), AllLen n A → AllLen n B → A.length = B.length → diffs A = diffs B →
      A.getLast? = B.getLast? → A = B := by
  induction A with
  | nil => intro B _ _ hl _ _; cases B <;> simp_all
  | cons a as ih =>
    intro B hA hB hl hd hlast
    cases B with
    | nil => simp at hl
    | cons b bs =>
      cases as with
      | nil =>
        cases bs with
        | nil => simpa using hlast
        | cons _ _ => simp at hl
      | cons a2 as' =>
        cases bs with
        | nil => simp at hl
        | cons b2 bs' =>
          simp only [diffs, List.cons.injEq] at hd
          have hA' : AllLen n (a2 :: as') := fun v hv => hA v (List.mem_cons_of_mem _ hv)
          have hB' : AllLen n (b2 :: bs') := fun v hv => hB v (List.mem_cons_of_mem _ hv)
          have htail := ih (b2 :: bs') hA' hB' (by simpa using hl) hd.2
            (by simpa [List.getLast?_cons_cons] using hlast)
          simp only [List.cons.injEq] at htail
          obtain ⟨h2, h3⟩ := htail
          subst h2 h3
          have la : a.length = n := hA a (List.mem_cons_self ..)
          have lb : b.length = n := hB b (List.mem_cons_self ..)
          have l2 : a2.length = n := hA' a2 (List.mem_cons_self ..)
          have ea : a = vsub a2 (vsub a2 a) := (vsub_self_sub a2 a (by rw [la, l2])).symm
          have eb : b = vsub a2 (vsub a2 b) := (vsub_self_sub a2 b (by rw [lb, l2])).symm
          rw [ea, eb, hd.1]

theorem diffs_allLen (n : Nat) (P : List (Vec α)) (h : AllLen n P) : AllLen n (diffs P) := by
  induction P with
  | nil => simp [diffs, AllLen]
  | cons a as ih =>
    cases as with
    | nil => simp [diffs, AllLen]
    | cons b bs =>
      intro v hv
      simp only [diffs, List.mem_cons] at hv
      rcases hv with rfl | hv
      · have lb : b.length = n := h b (by simp)
        have la : a.length = n := h a (by simp)
        simp only [vsub]
        rw [vzip_len _ b a (by rw [la, lb]), lb]
      · exact ih (fun w hw => h w (List.mem_cons_of_mem _ hw)) v hv

/-- **C06 (3) — round trip.** Rebuilding the history from the pairs of a result whose `x` is the
end of its stored history gives back exactly that history (in exact arithmetic): a restart starts
from the very memory the uninterrupted run holds at that point, so the next search point — a
function of `(x, g, memory)` — is the same. (The excluded case, `x` not the end of the stored
history, is the recorded finding K4.) -/
theorem restore_roundtrip (X : List (Vec α)) (x : Vec α) (h : AllLen x.length (X ++ [x])) :
    (revCumsum (diffs (X ++ [x]))).map (vsub x ·) ++ [x] = X ++ [x] := by
  have hd := diffs_allLen x.length (X ++ [x]) h
  have hr := revCumsum_allLen x.length _ hd
  apply eq_of_diffs_last x.length _ _ ?_ h ?_ ?_ ?_
  · intro v hv
    rcases List.mem_append.1 hv with hv | hv
    · obtain ⟨c, hc, rfl⟩ := List.mem_map.1 hv
      simp only [vsub]
      rw [vzip_len _ x c (by rw [hr c hc])]
    · simp only [List.mem_singleton] at hv; rw [hv]
  · simp [revCumsum_length, diffs_length]
  · exact diffs_restore x _ hd
  · simp

/-! ### Non-vacuity: a concrete checkpoint over `ℤ` with three pairs, restored with memory 2. -/
section nonvacuous
def xZ : Vec Int := [10, 20]
def skZ : List (Vec Int) := [[1, 2], [3, -1], [2, 2]]

example : AllLen xZ.length skZ := by
  intro v hv; simp [skZ] at hv; rcases hv with rfl | rfl | rfl <;> rfl

example : (revCumsum skZ).map (vsub xZ ·) = [[4, 17], [5, 19], [8, 18]] := by decide
example : diffs ((revCumsum skZ).map (vsub xZ ·) ++ [xZ]) = skZ := by decide
example : (revCumsum (diffs [[4, 17], [5, 19], [8, 18], xZ])).map (vsub xZ ·) ++ [xZ] = [[4, 17], [5, 19], [8, 18], xZ] := by
  decide
end nonvacuous

end Lbfgsb.C06
