/-
  C02 — every evaluated, reported and returned point lies inside the box, exactly.

  Level U. The theorems use *no law of arithmetic*: `x + α·d` may be rounded in any way, the
  kernels (`xbar`) and the stepper may return anything (of the right length). What makes the
  statement true is that every point that reaches a user callable, a callback state or the
  result is the value of a `clip` (or the checkpoint's point, itself the clipped start), and
  `lb ≤ ub`. Finite-difference stencil points are chosen by SciPy's `approx_derivative`:
  they are covered under its contract (`Ctx2.stencil`), which the harness monitors.
-/
import LbfgsbVerif.Proofs.C02
import Mathlib.Data.Int.Order.Basic

namespace Lbfgsb.C02
open Lbfgsb
variable {α ε δ : Type}
variable [LinearOrder α] [Add α] [Sub α] [Mul α] [Div α] [Neg α] [OfNat α 0] [OfNat α 1]
  [FloatLike α]

/-- **C02 (1)** every point at which a user callable is invoked — objective, gradient
(finite-difference stencil points included), callback, update function, scaler — every state
handed to the callback and the returned solution satisfy `lb ≤ x ≤ ub` component-wise. -/
theorem evals_in_box (u : User α ε) (o : Oracles α δ) (c : Cfg α) (hctx : Ctx2 u o c)
    (r : Result α) (s : St α) (h : minimize u o c = .ok (r, s)) :
    (∀ call ∈ s.sf.log, call.kind ≠ .ftarget → call.kind ≠ .gtol → InBox c.lb c.ub call.arg) ∧
    (∀ cb ∈ s.cbStates, InBox c.lb c.ub cb.x) ∧
    InBox c.lb c.ub r.x := by
  have main : (∀ call ∈ s.sf.log, PointOk c call) ∧ (∀ cb ∈ s.cbStates, InBox c.lb c.ub cb.x) ∧
      InBox c.lb c.ub r.x := by
    unfold minimize at h
    simp only [bind, Except.bind] at h
    split at h
    · simp at h
    · rename_i i hi
      have is := initEval_sum u c i hi
      obtain ⟨hix, hil⟩ := initEval_c02 u o c hctx i hi
      have hx0 := clip_x0_inBox hctx
      split at h
      · simp only [pure, Except.pure] at h
        injection h with h
        unfold earlyResult at h
        split at h
        · rename_i ck hck
          injection h with h1 h2; subst h1; subst h2
          exact ⟨hil, by simp [Init.state], by rw [hctx.ck_x ck hck]; exact hx0⟩
        · injection h with h1 h2; subst h1; subst h2
          exact ⟨hil, by simp [Init.state], by simp only [St.result, Init.state]; rw [hix]; exact hx0⟩
      · split at h
        · simp at h
        · rename_i s0 hs0
          have ps := prepare_sum u c i s0 is.coh hs0
          have i0 := prepare_c02 u o c hctx i s0 hix hil is.coh hs0
          split at h
          · simp at h
          · rename_i s1 hs1
            simp only [pure, Except.pure] at h
            injection h with h; injection h with h1 h2
            have st := mainLoop_step2 u o c hctx _ s0 s1 i0 ps.inv hs1
            have i1 := st.inv i0
            have hcl : (classify c s1).sf = s1.sf ∧ (classify c s1).x = s1.x ∧
                (classify c s1).cbStates = s1.cbStates := by
              unfold classify; repeat' split
              all_goals exact ⟨rfl, rfl, rfl⟩
            subst h2; subst h1
            exact ⟨by rw [hcl.1]; exact i1.log, by rw [hcl.2.2]; exact i1.cbs,
              by simp only [St.result]; rw [hcl.2.1]; exact i1.x_in⟩
  refine ⟨fun call hc h1 h2 => ?_, main.2.1, main.2.2⟩
  rcases main.1 call hc with h' | h' | h'
  · exact absurd h' h1
  · exact absurd h' h2
  · exact h'

omit [Add α] [Sub α] [Mul α] [Div α] [Neg α] [OfNat α 0] [OfNat α 1] [FloatLike α] in
/-- **C02 (2)** components with `lb == ub` never move: a point in the box equals the bound
there. (Combined with `evals_in_box` this covers every evaluated, reported, returned point.) -/
theorem fixed_never_move (lb ub p : Vec α) (h : InBox lb ub p) (i : Nat) (hi : i < p.length)
    (hl : i < lb.length) (hu : i < ub.length) (hfix : lb[i] = ub[i]) : p[i] = lb[i] := by
  induction p generalizing lb ub i with
  | nil => simp at hi
  | cons a as ih =>
    cases lb with
    | nil => simp at hl
    | cons l ls =>
      cases ub with
      | nil => simp at hu
      | cons u' us =>
        simp only [InBox] at h
        cases i with
        | zero =>
          simp only [List.getElem_cons_zero] at hfix ⊢
          rw [← hfix] at h
          exact le_antisymm (le_of_not_gt h.1.2) (le_of_not_gt h.1.1)
        | succ j =>
          simp only [List.getElem_cons_succ] at hfix ⊢
          exact ih ls us h.2 j (by simpa using hi) (by simpa using hl) (by simpa using hu) hfix

omit [Add α] [Sub α] [Mul α] [Div α] [Neg α] [OfNat α 0] [OfNat α 1] [FloatLike α] in
/-- **C02 (3)** the mechanism: clipping lands in the box whatever its argument is —
"not even by one unit in the last place". -/
theorem clip_lands_in_box (lb ub x : Vec α) (hb : BoxOk lb ub) (hx : x.length = lb.length) :
    InBox lb ub (clip x lb ub) := clip_inBox hb x hx

/-! ### Non-vacuity -/
section nonvacuous
instance : FloatLike ℤ := ⟨id, fun _ => true⟩

def uZ : User ℤ String where
  F x := .ok (dot x x)
  Gr x := .ok (smul 2 x)
  fdPts _ _ := []
  fdComb _ _ _ := []
  callback _ := .ok false
  update i := .ok ⟨i.f0, i.f0Old, i.grad, i.G⟩
  scaler _ _ := .ok 1
  ftargetFn _ := .ok (-5)
  gtolFn _ := .ok 0

/-- a kernel that ignores the box: `xbar = x - 1` in every component, also the fixed one -/
def oZ : Oracles ℤ Nat where
  xbar x _ _ := x.map (· - 1)
  dcNew _ _ _ _ _ _ := 0
  dcIter n stp _ _ _ := if n = 0 then (1, stp, .fg) else (n + 1, stp, .conv)

def cZ : Cfg ℤ :=
  { x0 := [3, -4], lb := [-10, -4], ub := [10, -4], mode := .callable, maxcor := 3, maxiter := 5,
    maxfun := 20, maxls := 4, ftol := 0, gtol := .const 0, ftarget := none, maxStep := 100,
    ftolLS := 0, gtolLS := 1, xtolLS := 0, epsSY := 0, hasCallback := true, hasUpdate := false,
    hasScaler := false, checkpoint := none }

/-- the hypotheses of `evals_in_box` hold for this configuration… -/
example : Ctx2 uZ oZ cZ where
  box := by simp [BoxOk, cZ]
  n := by decide
  xbar_len := by intro x g m _; simp [oZ]
  stencil := by intro x f _ p hp; simp [uZ] at hp
  ck_x := by intro ck h; cases h

/-- …and the run moves: three accepted steps, the degenerate component stays at `-4` although
the kernel asks for `-5`. -/
example : ∃ r s, minimize uZ oZ cZ = .ok (r, s) ∧ r.x = [0, -4] ∧ r.nit = 3 ∧ r.msg = .pgtol := by
  refine ⟨_, _, rfl, ?_⟩
  decide

end nonvacuous

end Lbfgsb.C02
