/-
  C08 — the Cauchy point when no bound is met: if the straight segment from `x` to a little beyond the unconstrained Cauchy step
  `x − t* g`, `t* = gᵀg / gᵀBg`, lies in the box, the routine's model returns exactly `x − t* g` (the minimiser of the quadratic model
  along the steepest-descent direction). Proof: on that segment the projection is the identity and `φ` is the parabola
  `−t gᵀg + ½ t² gᵀBg`; `t*` is therefore a first local minimiser of `φ`, and the first local minimiser is unique (Props/C08Unique).
-/
import LbfgsbVerif.Props.C08Unique

set_option linter.unusedSectionVars false

namespace Lbfgsb.C08
open Lbfgsb Matrix
variable {K : Type} [Field K] [LinearOrder K] [IsStrictOrderedRing K]

/-- a box is convex: the points between `x` and `x − T g` along the segment are in it -/
theorem inBoxF_segment (lb ub x g : Vec K) (T τ : K) (h0 : 0 ≤ τ) (hT : τ ≤ T) (hg : g.length = x.length)
    (hx : InBoxF lb ub x) (hxT : InBoxF lb ub (vsub x (smul T g))) : InBoxF lb ub (vsub x (smul τ g)) := by
  induction x generalizing lb ub g with
  | nil =>
    cases g with
    | nil => exact hx
    | cons a as => simp at hg
  | cons xi xs ih =>
    cases g with
    | nil => simp at hg
    | cons gi gs =>
      cases lb with
      | nil => cases ub <;> simp [InBoxF] at hx
      | cons l ls =>
        cases ub with
        | nil => simp [InBoxF] at hx
        | cons u us =>
          have e1 : vsub (xi :: xs) (smul T (gi :: gs)) = (xi - T * gi) :: vsub xs (smul T gs) := rfl
          have e2 : vsub (xi :: xs) (smul τ (gi :: gs)) = (xi - τ * gi) :: vsub xs (smul τ gs) := rfl
          rw [e1] at hxT
          rw [e2]
          simp only [InBoxF] at hx hxT ⊢
          refine ⟨?_, ih ls us gs (by simpa using hg) hx.2 hxT.2⟩
          obtain ⟨⟨hl, hu⟩, -⟩ := hx
          obtain ⟨⟨hlT, huT⟩, -⟩ := hxT
          rcases le_total 0 gi with hgi | hgi
          · constructor
            · have : τ * gi ≤ T * gi := mul_le_mul_of_nonneg_right hT hgi
              linarith
            · have : 0 ≤ τ * gi := mul_nonneg h0 hgi
              linarith
          · constructor
            · have : τ * gi ≤ 0 := mul_nonpos_of_nonneg_of_nonpos h0 hgi
              linarith
            · have : T * gi ≤ τ * gi := mul_le_mul_of_nonpos_right hT hgi
              linarith

/-- on a parameter whose point is in the box the model value along the path is the parabola -/
theorem phi_free (i : CauchyIn K) (n k : Nat) (Mm : Matrix (Fin k) (Fin k) K) (hq : QCtx i n k Mm) (τ : K)
    (hτ : InBoxF i.lb i.ub (vsub i.x (smul τ i.g))) :
    phi i n k Mm τ = τ * (-(vec n i.g ⬝ᵥ vec n i.g)) +
      (1 / 2) * τ * τ * (vec n i.g ⬝ᵥ (bmat i.theta (wmat n k i.W) Mm *ᵥ vec n i.g)) := by
  unfold phi pathAt
  rw [clip_of_inBox (C11.inBox_of_inBoxF hτ)]
  have hsl : (smul τ i.g).length = n := by rw [smul_length, hq.hg]
  have e : vec n (vsub i.x (smul τ i.g)) - vec n i.x = 0 + τ • (-vec n i.g) := by
    rw [vec_vsub n _ _ hq.hx hsl, vec_smul n _ _ hq.hg]
    funext r
    simp only [Pi.sub_apply, Pi.add_apply, Pi.zero_apply, Pi.smul_apply, Pi.neg_apply, smul_eq_mul]
    ring
  rw [e, qmodel_line _ _ (bmat_symm _ _ _ hq.hsym)]
  simp only [qmodel, dotProduct_zero, mulVec_zero, mul_zero, add_zero, dotProduct_neg, neg_dotProduct, mulVec_neg, neg_neg, zero_add]

/-- **C08 (no bound met: the unconstrained Cauchy step)** -/
theorem cauchy_unconstrained_step (i : CauchyIn K) (n k : Nat) (Mm : Matrix (Fin k) (Fin k) K)
    (hk : kOf i = k) (hc : MinCtx i n k Mm (f2orgOf i)) (hG : vec n i.g ≠ 0) (T : K)
    (hT : (vec n i.g ⬝ᵥ vec n i.g) / (vec n i.g ⬝ᵥ (bmat i.theta (wmat n k i.W) Mm *ᵥ vec n i.g)) < T)
    (hTbox : InBoxF i.lb i.ub (vsub i.x (smul T i.g))) :
    (cauchy i).1 = vsub i.x (smul ((vec n i.g ⬝ᵥ vec n i.g) /
      (vec n i.g ⬝ᵥ (bmat i.theta (wmat n k i.W) Mm *ᵥ vec n i.g))) i.g) := by
  set a : K := vec n i.g ⬝ᵥ vec n i.g with ha
  set b : K := vec n i.g ⬝ᵥ (bmat i.theta (wmat n k i.W) Mm *ᵥ vec n i.g) with hb
  have hapos : 0 < a := by
    rw [ha]
    exact dot_self_pos _ hG
  have hbpos : 0 < b := hc.pd _ hG
  have hts : 0 < a / b := div_pos hapos hbpos
  have hgl : i.g.length = i.x.length := by rw [hc.q.hg, hc.q.hx]
  have seg : ∀ τ, 0 ≤ τ → τ ≤ T → InBoxF i.lb i.ub (vsub i.x (smul τ i.g)) :=
    fun τ h0 h1 => inBoxF_segment _ _ _ _ T τ h0 h1 hgl hc.box hTbox
  have hphi : ∀ τ, 0 ≤ τ → τ ≤ T → phi i n k Mm τ = τ * (-a) + (1 / 2) * τ * τ * b :=
    fun τ h0 h1 => phi_free i n k Mm hc.q τ (seg τ h0 h1)
  have hend : -a + a / b * b = 0 := by field_simp; ring
  have hflm : FirstLocalMin (phi i n k Mm) (a / b) := by
    refine ⟨le_of_lt hts, ?_, T - a / b, by linarith, ?_⟩
    · intro p q hp hpq hq
      rw [hphi p hp (by linarith), hphi q (by linarith) (by linarith)]
      exact parab_dec (-a) b (a / b) p q hbpos (le_of_eq hend) hp hpq hq
    · intro τ h1 h2
      rw [hphi (a / b) (le_of_lt hts) (le_of_lt hT), hphi τ (by linarith) (by linarith)]
      exact parab_min (-a) b (a / b) τ (le_of_lt hbpos) (ge_of_eq hend) h1
  rw [gcp_is_the_first_local_min i n k Mm hk hc (a / b) hflm]
  exact clip_of_inBox (C11.inBox_of_inBoxF (seg (a / b) (le_of_lt hts) (le_of_lt hT)))

end Lbfgsb.C08
