/-
  C18 — two consumer-visible consequences of "the operator is built from the stored pairs" (any ordered field):
    * `hess_inv_secant`: the operator maps the newest `y` to the newest `s` (secant equation), whatever the initial matrix and the
      older pairs — checked on the real `hess_inv` of every explored result (harness/props/c18.py);
    * `hess_inv_is_inverse_bfgs`: SciPy's `LbfgsInvHessProduct` starts its recursion from the identity, so the returned operator is
      the inverse of the dense BFGS matrix of the stored pairs started from the identity — NOT of the matrix the solver worked
      with, which starts from `θ I` (C10 `kernel_matrix_is_bfgs`); the two coincide when `θ = 1`. The inverse of the solver's own
      matrix is the same recursion started from `θ⁻¹ I` (C12 `inv_chain_inverts_bfgs_chain`).
-/
import LbfgsbVerif.Proofs.BfgsInverse
import Mathlib.Algebra.BigOperators.Fin

set_option linter.unusedSectionVars false

namespace Lbfgsb.C18
open Matrix Lbfgsb
variable {n : Type} [Fintype n] [DecidableEq n]
variable {K : Type} [Field K] [LinearOrder K] [IsStrictOrderedRing K]

/-- **C18 (secant equation of the returned operator)** -/
theorem hess_inv_secant (H : Matrix n n K) (ps : List ((n → K) × (n → K))) (p : (n → K) × (n → K))
    (h : 0 < p.1 ⬝ᵥ p.2) : twoLoop H (ps ++ [p]) p.2 = p.1 :=
  BfgsInverse.two_loop_secant H ps p (by rw [dotProduct_comm]; exact ne_of_gt h)

/-- **C18 (the returned operator is the inverse of the identity-started BFGS matrix of the pairs)** -/
theorem hess_inv_is_inverse_bfgs (ps : List ((n → K) × (n → K))) (hp : ∀ p ∈ ps, p.1 ≠ 0 ∧ 0 < p.1 ⬝ᵥ p.2) (x : n → K) :
    twoLoop (1 : Matrix n n K) ps (C10.bfgsChain (1 : Matrix n n K) ps *ᵥ x) = x := by
  have h1 : C10.SPD (1 : Matrix n n K) := by
    have := C10.scaled_identity_spd (n := n) (1 : K) one_pos
    rwa [one_smul] at this
  have h := BfgsInverse.invChain_mul_bfgsChain (1 : Matrix n n K) 1 h1 (by rw [mul_one]) ps hp
  rw [two_loop_eq_chain, chainF_eq_invChain, mulVec_mulVec, h, one_mulVec]

/-- non-vacuity: one pair `s = (1, 0)`, `y = (2, 1)` -/
example : twoLoop (1 : Matrix (Fin 2) (Fin 2) ℚ) ([] ++ [((![1, 0] : Fin 2 → ℚ), (![2, 1] : Fin 2 → ℚ))]) ![2, 1] = ![1, 0] :=
  hess_inv_secant 1 [] ((![1, 0] : Fin 2 → ℚ), (![2, 1] : Fin 2 → ℚ)) (by simp [dotProduct, Fin.sum_univ_two])

end Lbfgsb.C18
