/-
  C06 / C07 — "for every split point": the hypothesis `Restartable` of `restart_continues` is an
  invariant of the loop-head states of a fresh run as long as every correction pair is accepted
  (exact arithmetic).

    * `fresh_rinv`   : the state a fresh run enters its loop with is restartable (no pair yet);
    * `iterBody_rinv`: an iteration that goes on (`Flow.next`) and whose pair passes the curvature test
                       leads from a restartable state to a restartable state;
    * `reach_rinv`   : hence every loop-head state reached through such iterations is restartable, and
                       `restart_at_every_split` combines this with `restart_continues`: stopping there
                       and restarting from the result continues the run as the uninterrupted run does.

  A rejected pair is excluded on purpose: the state then no longer ends its stored history with the
  current point and a restart differs (known finding K4). A failed line search is excluded by the same
  hypothesis (the point does not move, so the curvature test of the "pair" fails).
  Hypotheses on the environment: the user's gradient has the length of its argument, the kernels
  return a point of the length of the iterate (C02 `kernelInput_sizes` / `xbarModel_inBox` for the
  concrete kernels), `lb ≤ ub`, `maxcor ≥ 1`, no update function, callbacks that let the run go on.
-/
import LbfgsbVerif.Props.C06Sim
import LbfgsbVerif.Proofs.Shell
import LbfgsbVerif.Proofs.CauchyDeriv
import LbfgsbVerif.Props.Kernels

set_option linter.unusedSectionVars false

namespace Lbfgsb.C06
open Lbfgsb
variable {K ε δ : Type} [Field K] [LinearOrder K] [IsStrictOrderedRing K]
attribute [local instance] fieldFloatLike

/-- the user's gradient (callable, or finite differences) has the length of the point -/
def GradLen (u : User K ε) (c : Cfg K) : Prop :=
  ∀ x g, gradSpec u.toSFUser c.lb c.ub c.mode x = .ok g → g.length = x.length

/-- `Restartable` together with the facts needed to carry it through an iteration -/
structure RInv (u : User K ε) (c : Cfg K) (s : St K) (a : K) : Prop where
  re : ∃ X' G', Restartable c s X' G' a
  coh : Coh u.toSFUser s.sf
  glen : s.g.length = s.x.length
  xlen : s.x.length = c.lb.length

theorem vsub_self_zeros (g : Vec K) : vsub g g = g.map fun _ => (0 : K) := by
  induction g with
  | nil => rfl
  | cons a as ih =>
    simp only [vsub, vzip, List.map_cons, sub_self, List.cons.injEq, true_and] at ih ⊢
    exact ih

theorem curvOk_self (x g : Vec K) (eps : K) : curvOk x g x g eps = false := by
  unfold curvOk
  simp only [vsub_self_zeros, dot_zeros, mul_zero, lt_self_iff_false, decide_false]

theorem lastD_append_one (l : List (Vec K)) (v : Vec K) : lastD (l ++ [v]) = v := by
  simp [lastD]

theorem lastD_drop_one (l : List (Vec K)) (h : l.drop 1 ≠ []) : lastD (l.drop 1) = lastD l := by
  cases l with
  | nil => simp at h
  | cons a t =>
    cases t with
    | nil => simp at h
    | cons b t => simp [lastD]

theorem allLen_drop {n : Nat} {l : List (Vec K)} (h : AllLen n l) (k : Nat) : AllLen n (l.drop k) :=
  fun v hv => h v (List.mem_of_mem_drop hv)

theorem allLen_append_one {n : Nat} {l : List (Vec K)} {v : Vec K} (h : AllLen n l) (hv : v.length = n) :
    AllLen n (l ++ [v]) := by
  intro w hw
  rcases List.mem_append.mp hw with hw | hw
  · exact h w hw
  · simp only [List.mem_singleton] at hw; rw [hw]; exact hv


theorem trial_length (x d lb ub : Vec K) (stp : K) (hd : d.length = x.length) :
    (trial x d lb ub stp).length = x.length := by
  unfold trial
  rw [clip_length]
  simp [vadd, smul, vzip_length', hd]

theorem doCallback_shape (u : User K ε) (c : Cfg K) (hcb : ∀ r, u.callback r = .ok false) (s s2 : St K)
    (h : doCallback u c s = .ok s2) :
    s2 = s ∨ ∃ cb, s2 = { (s.logCall .callback s.x) with cbStates := s.cbStates ++ [cb] } := by
  unfold doCallback at h
  split at h
  · simp only [bind, Except.bind, hcb, pure, Except.pure, Bool.false_eq_true, if_false, Except.ok.injEq] at h
    exact Or.inr ⟨_, h.symm⟩
  · simp only [pure, Except.pure, Except.ok.injEq] at h
    exact Or.inl h.symm

/-- the deques after an accepted update -/
def pushed (maxcor : Nat) (X : List (Vec K)) (x : Vec K) : List (Vec K) :=
  if (X ++ [x]).length > maxcor + 1 then (X ++ [x]).drop 1 else X ++ [x]

theorem memStep_acc (c : Cfg K) (s : St K) (h : curvOk s.x s.g (lastD s.X) (lastD s.G) c.epsSY = true)
    (hl : s.X.length = s.G.length) :
    memStep c s = { s with X := pushed c.maxcor s.X s.x, G := pushed c.maxcor s.G s.g,
                           mats := some (pushed c.maxcor s.X s.x, pushed c.maxcor s.G s.g) } := by
  unfold memStep updateMats pushed
  simp only [h, if_true, List.length_append, List.length_cons, List.length_nil, hl]
  split <;> rfl

theorem pushed_eq (maxcor : Nat) (X : List (Vec K)) (x : Vec K) (hne : X ≠ []) :
    pushed maxcor X x = (if X.length > maxcor then X.drop 1 else X) ++ [x] := by
  unfold pushed
  simp only [List.length_append, List.length_cons, List.length_nil, Nat.add_lt_add_iff_right, gt_iff_lt]
  split
  · cases X with
    | nil => exact absurd rfl hne
    | cons a as => simp
  · rfl

/-- the state after an accepted step, before the callback -/
def accState (s : St K) (x' : Vec K) (f' : K) (g' : Vec K) (sf : SF K) (olog : List (OReq K)) (XA GA : List (Vec K)) : St K :=
  { s with x := x', f := f', g := g', X := XA, G := GA, mats := some (XA, GA), sf := sf, ftarget := none, olog := olog }

/-- **an accepted iteration preserves restartability** -/
theorem iterBody_rinv (u : User K ε) (o : Oracles K δ) (c : Cfg K) (hcb : ∀ r, u.callback r = .ok false)
    (hU : c.hasUpdate = false) (hm : 1 ≤ c.maxcor) (hbox : BoxOk c.lb c.ub) (hgl : GradLen u c)
    (s s' : St K) (a : K) (hi : RInv u c s a)
    (hxb : (o.xbar s.x s.g s.mats).length = s.x.length)
    (h : iterBody u o c s = .ok (s', .next))
    (hacc : curvOk s'.x s'.g s.x s.g c.epsSY = true) : RInv u c s' a := by
  obtain ⟨⟨X', G', hs⟩, hcoh, hgl0, hxl⟩ := hi
  unfold iterBody at h
  simp only [bind, Except.bind] at h
  split at h
  · simp at h
  · rename_i r hr
    obtain ⟨sfL, stp?, olog⟩ := r
    dsimp only at h
    have ls := lineSearch_sum u o c s.x s.f s.g _ s.nit s.sf sfL _ _ olog stp? hcoh hr
    cases stp? with
    | none =>
      exfalso
      simp only [pure, Except.pure, Except.ok.injEq] at h
      unfold iterFail at h
      dsimp only at h
      split at h
      · simp at h
      · simp only [Prod.mk.injEq, and_true] at h
        rw [← h] at hacc
        simp [curvOk_self] at hacc
    | some stp =>
      simp only at h
      unfold iterStep at h
      simp only [bind, Except.bind] at h
      split at h
      · simp at h
      · rename_i e he
        obtain ⟨es, ⟨v, hv, hf⟩, g0, hg0, hgv⟩ := funAndGrad_sum ls.coh he
        generalize hx' : trial s.x (vsub (o.xbar s.x s.g s.mats) s.x) c.lb c.ub stp = x' at *
        unfold afterEval at h
        simp only [hU, Bool.false_eq_true, if_false, pure, Except.pure] at h
        unfold stopTests at h
        simp only [hs.ftarget, targetReached] at h
        by_cases hmc : minChange e.2.1 s.f c.ftol = true
        · simp [hmc] at h
        · simp only [hmc, Bool.false_eq_true, if_false] at h
          split at h
          · simp at h
          · rename_i s2 hs2
            simp only [Except.ok.injEq, Prod.mk.injEq, and_true] at h
            subst h
            have hlast : lastD s.X = s.x := by rw [hs.hX]; exact lastD_append_one _ _
            have hlastG : lastD s.G = s.g := by rw [hs.hG]; exact lastD_append_one _ _
            have hXG : s.X.length = s.G.length := by rw [hs.hX, hs.hG]; simp [hs.hlen]
            have hXne : s.X ≠ [] := by rw [hs.hX]; simp
            have hGne : s.G ≠ [] := by rw [hs.hG]; simp
            have hacc' : curvOk x' e.2.2 (lastD s.X) (lastD s.G) c.epsSY = true := by
              rw [hlast, hlastG]
              rcases doCallback_shape u c hcb _ _ hs2 with h2 | ⟨cb, h2⟩ <;> (rw [h2] at hacc; exact hacc)
            rw [memStep_acc c { s with x := x', f := e.2.1, g := e.2.2, sf := e.1, ftarget := none, olog := olog } hacc' hXG] at hs2
            dsimp only at hs2
            rw [pushed_eq _ _ _ hXne, pushed_eq _ _ _ hGne] at hs2
            have hx'len : x'.length = s.x.length := by
              rw [← hx']; exact trial_length _ _ _ _ _ (by simp [vsub, vzip_length', hxb])
            have hlb : e.1.lb = c.lb := by rw [es.lb, ls.lb_eq, hs.sf_lb]
            have hub : e.1.ub = c.ub := by rw [es.ub, ls.ub_eq, hs.sf_ub]
            have hmode : e.1.mode = c.mode := by rw [es.mode, ls.mode, hs.sf_mode]
            have hscale : e.1.scale = 1 := by rw [es.scale, ls.scale, hs.sf_scale]
            have hg'len : e.2.2.length = x'.length := by
              rw [hgv]
              simp only [vscale, List.length_map]
              apply hgl
              rw [← hg0, ls.lb_eq, ls.ub_eq, ls.mode, hs.sf_lb, hs.sf_ub, hs.sf_mode]
            have hinbox : clip x' c.lb c.ub = x' := by
              rw [← hx']
              unfold trial
              apply clip_of_inBox
              apply clip_inBox hbox
              simp [vadd, smul, vsub, vzip_length', hxb, hxl]
            have hXlen : s.X.length = X'.length + 1 := by rw [hs.hX]; simp
            have hlenX0 : AllLen x'.length s.X := by rw [hx'len, hs.hX]; exact hs.lenX
            have hlenG0 : AllLen e.2.2.length s.G := by rw [hg'len, hx'len, ← hgl0, hs.hG]; exact hs.lenG
            have hb := hs.hb
            obtain ⟨XA, hXA⟩ : ∃ XA, XA = (if s.X.length > c.maxcor then List.drop 1 s.X else s.X) := ⟨_, rfl⟩
            obtain ⟨GA, hGA⟩ : ∃ GA, GA = (if s.G.length > c.maxcor then List.drop 1 s.G else s.G) := ⟨_, rfl⟩
            rw [← hXA, ← hGA] at hs2
            have f1 : AllLen x'.length XA := by
              rw [hXA]; split
              · exact allLen_drop hlenX0 1
              · exact hlenX0
            have f2 : AllLen e.2.2.length GA := by
              rw [hGA]; split
              · exact allLen_drop hlenG0 1
              · exact hlenG0
            have f3 : XA.length = GA.length := by
              rw [hXA, hGA, ← hXG]; split
              · rw [List.length_drop, List.length_drop, hXG]
              · exact hXG
            have f4 : XA.length ≤ c.maxcor ∧ 1 ≤ XA.length := by
              rw [hXA]; split
              · rw [List.length_drop]; omega
              · omega
            have f5 : lastD XA = lastD s.X := by
              rw [hXA]; split
              · apply lastD_drop_one
                intro h0
                have := congrArg List.length h0
                simp only [List.length_drop, List.length_nil] at this
                omega
              · rfl
            have f6 : lastD GA = lastD s.G := by
              rw [hGA]; split
              · apply lastD_drop_one
                intro h0
                have := congrArg List.length h0
                simp only [List.length_drop, List.length_nil] at this
                omega
              · rfl
            have hre : Restartable c (accState s x' e.2.1 e.2.2 e.1 olog (XA ++ [x']) (GA ++ [e.2.2])) XA GA a :=
              { hX := rfl
                hG := rfl
                lenX := allLen_append_one f1 rfl
                lenG := allLen_append_one f2 rfl
                hlen := f3
                hb := f4.1
                curv := by
                  intro _
                  show curvOk x' e.2.2 (lastD XA) (lastD GA) c.epsSY = true
                  rw [f5, f6]; exact hacc'
                mats := by
                  show some (XA ++ [x'], GA ++ [e.2.2]) = if (XA ++ [x']).length > 1 then some (XA ++ [x'], GA ++ [e.2.2]) else none
                  have : (XA ++ [x']).length > 1 := by
                    simp only [List.length_append, List.length_cons, List.length_nil]
                    omega
                  rw [if_pos this]
                sf_mode := hmode
                sf_lb := hlb
                sf_ub := hub
                sf_scale := hscale
                sf_x := es.x_eq
                task := hs.task
                success := hs.success
                warnflag := hs.warnflag
                ftarget := rfl
                gtol := hs.gtol
                inbox := hinbox }
            rcases doCallback_shape u c hcb _ _ hs2 with h2 | ⟨cb, h2⟩
            · subst h2
              exact ⟨⟨XA, GA, { hre with }⟩, es.coh, hg'len, (show x'.length = c.lb.length by rw [hx'len, hxl])⟩
            · subst h2
              exact ⟨⟨XA, GA, { hre with }⟩, es.coh, hg'len, (show x'.length = c.lb.length by rw [hx'len, hxl])⟩

/-- the kernels return a point of the length of the (feasible) iterate -/
def XbarLen (o : Oracles K δ) (c : Cfg K) : Prop :=
  ∀ x g m, x.length = c.lb.length → clip x c.lb c.ub = x → (o.xbar x g m).length = x.length

/-- **the state a fresh run enters its loop with is restartable** -/
theorem fresh_rinv (u : User K ε) (c : Cfg K) (a : K) (hck : c.checkpoint = none) (hS : c.hasScaler = false)
    (hU : c.hasUpdate = false) (hT : c.ftarget = none) (hg : c.gtol = .const a) (hbox : BoxOk c.lb c.ub)
    (hx0 : c.x0.length = c.lb.length) (hgl : GradLen u c) (i : Init K) (s : St K)
    (hi : initEval u c = .ok i) (hp : prepare u c i = .ok s) : RInv u c s a := by
  unfold initEval firstEval evalFtarget at hi
  simp only [hck, hT, hg, evalThresh, bind, Except.bind, pure, Except.pure] at hi
  split at hi
  · simp at hi
  · rename_i e he
    simp only [Except.ok.injEq] at hi
    have hc0 : Coh u.toSFUser (SF.new c.mode (clip c.x0 c.lb c.ub) c.lb c.ub) := by
      constructor <;> intro h <;> simp [SF.new] at h
    obtain ⟨es, -⟩ := funv_sum hc0 he
    subst hi
    unfold prepare firstGrad applyScaler applyUpdate0 at hp
    simp only [hck, hS, hU, bind, Except.bind, pure, Except.pure, Bool.false_eq_true, if_false] at hp
    split at hp
    · simp at hp
    · rename_i e2 he2
      obtain ⟨es2, g0, hg0, hgv⟩ := gradv_sum es.coh he2
      simp only [Except.ok.injEq] at hp
      unfold initMemory at hp
      simp only [Init.state, List.length_nil, gt_iff_lt, Nat.lt_irrefl, if_false] at hp
      have hxl : (clip c.x0 c.lb c.ub).length = c.lb.length := by rw [clip_length, hx0]
      have hinb : clip (clip c.x0 c.lb c.ub) c.lb c.ub = clip c.x0 c.lb c.ub :=
        clip_of_inBox (clip_inBox hbox _ hx0)
      have hg0l : g0.length = (clip c.x0 c.lb c.ub).length := by
        apply hgl
        rw [← hg0, es.lb, es.ub, es.mode]
        rfl
      have hgl2 : (vscale e2.2 e2.1.scale).length = (clip c.x0 c.lb c.ub).length := by
        rw [hgv]; simp only [vscale, List.length_map]; exact hg0l
      subst hp
      refine ⟨⟨[], [], ?_⟩, es2.coh, hgl2, hxl⟩
      exact
        { hX := rfl
          hG := rfl
          lenX := by intro v hv; simp only [List.nil_append, List.mem_singleton] at hv; rw [hv]
          lenG := by intro v hv; simp only [List.nil_append, List.mem_singleton] at hv; rw [hv]
          hlen := rfl
          hb := Nat.zero_le _
          curv := fun h => absurd rfl h
          mats := by simp
          sf_mode := by show e2.1.mode = c.mode; rw [es2.mode, es.mode]; rfl
          sf_lb := by show e2.1.lb = c.lb; rw [es2.lb, es.lb]; rfl
          sf_ub := by show e2.1.ub = c.ub; rw [es2.ub, es.ub]; rfl
          sf_scale := by show e2.1.scale = 1; rw [es2.scale, es.scale]; rfl
          sf_x := es2.x_eq
          task := rfl
          success := rfl
          warnflag := rfl
          ftarget := rfl
          gtol := rfl
          inbox := hinb }

/-- loop-head states reached from `s0` through iterations that go on and whose correction pair passes
the curvature test (so that it is stored) -/
inductive AccReach (u : User K ε) (o : Oracles K δ) (c : Cfg K) (s0 : St K) : St K → Prop
  | refl : AccReach u o c s0 s0
  | step {s s' : St K} : AccReach u o c s0 s → guard c s = true → iterBody u o c s = .ok (s', .next) →
      curvOk s'.x s'.g s.x s.g c.epsSY = true → AccReach u o c s0 s'

/-- **every such loop-head state is restartable** -/
theorem reach_rinv (u : User K ε) (o : Oracles K δ) (c : Cfg K) (hcb : ∀ r, u.callback r = .ok false)
    (hU : c.hasUpdate = false) (hm : 1 ≤ c.maxcor) (hbox : BoxOk c.lb c.ub) (hgl : GradLen u c) (hxb : XbarLen o c)
    (s0 s : St K) (a : K) (h0 : RInv u c s0 a) (hr : AccReach u o c s0 s) : RInv u c s a := by
  induction hr with
  | refl => exact h0
  | step _ _ hb hacc ih =>
    obtain ⟨X', G', hs⟩ := ih.re
    exact iterBody_rinv u o c hcb hU hm hbox hgl _ _ a ih (hxb _ _ _ ih.xlen hs.inbox) hb hacc

/-- the run from `s0` passes through `s`: with `k` more iterations allowed it computes from `s0` what it
computes from `s` -/
theorem mainLoop_of_reach (u : User K ε) (o : Oracles K δ) (c : Cfg K) (s0 s : St K)
    (hr : AccReach u o c s0 s) : ∃ k, ∀ fuel, mainLoop u o c (fuel + k) s0 = mainLoop u o c fuel s := by
  induction hr with
  | refl => exact ⟨0, fun _ => rfl⟩
  | @step s1 s2 _ hg hb _ ih =>
    obtain ⟨k, hk⟩ := ih
    refine ⟨k + 1, fun fuel => ?_⟩
    have := hk (fuel + 1)
    rw [show fuel + (k + 1) = fuel + 1 + k by omega, this]
    simp only [mainLoop, hg, if_true, hb, bind, Except.bind]

theorem snapshot_result (s : St K) : SnapshotOf s.result s :=
  ⟨rfl, rfl, rfl, rfl, rfl, rfl, rfl, rfl⟩

/-- **C06 / C07 (every split point)** a fresh run (no scaler, update function or target; constant `gtol`;
callbacks that let it go on) reaches the loop-head state `s` after some iterations, every correction pair
so far having been stored. Stopping there and restarting from the result (or from the callback state — the
same snapshot) gives a run whose loop, for any number `fuel` of further iterations, computes exactly what the
uninterrupted run computes with `fuel` further iterations — up to the ghost logs and the wrapper's cache. -/
theorem restart_at_every_split (u : User K ε) (o : Oracles K δ) (c : Cfg K) (a : K)
    (hck : c.checkpoint = none) (hS : c.hasScaler = false) (hU : c.hasUpdate = false) (hT : c.ftarget = none)
    (hg : c.gtol = .const a) (hcb : ∀ r, u.callback r = .ok false) (hm : 1 ≤ c.maxcor) (hbox : BoxOk c.lb c.ub)
    (hx0 : c.x0.length = c.lb.length) (hgl : GradLen u c) (hxb : XbarLen o c)
    (i0 : Init K) (s0 s : St K) (hi0 : initEval u c = .ok i0) (hp0 : prepare u c i0 = .ok s0)
    (hr : AccReach u o c s0 s)
    (i : Init K) (sB : St K)
    (hi : initEval u { c with checkpoint := some s.result, x0 := s.x } = .ok i)
    (hp : prepare u { c with checkpoint := some s.result, x0 := s.x } i = .ok sB)
    (hfe : guard c s = true → FirstEval o c s.x s.f s.g (vsub (o.xbar s.x s.g s.mats) s.x) s.nit
      (min c.maxls (c.maxfun - s.sf.nfev))) :
    ∃ k, ∀ fuel, (mainLoop u o c (fuel + k) s0).map St.er2 =
      (mainLoop u o { c with checkpoint := some s.result, x0 := s.x } fuel sB).map St.er2 := by
  have h0 := fresh_rinv u c a hck hS hU hT hg hbox hx0 hgl i0 s0 hi0 hp0
  have hs := reach_rinv u o c hcb hU hm hbox hgl hxb s0 s a h0 hr
  obtain ⟨X', G', hre⟩ := hs.re
  obtain ⟨k, hk⟩ := mainLoop_of_reach u o c s0 s hr
  refine ⟨k, fun fuel => ?_⟩
  rw [hk fuel]
  exact restart_continues u o c s X' G' a s.result hre (snapshot_result s) hS hU hT hg hcb i sB hi hp fuel hfe

/-- the composed kernel models return a point of the length of the iterate -/
theorem xbarLen_concrete [Dcsrch.DcOps K] (c : Cfg K) (e : K) (hbox : BoxOk c.lb c.ub) :
    XbarLen (concreteOracles c.lb c.ub e) c := by
  intro x g m hl hx
  have hin : InBox c.lb c.ub x := by rw [← hx]; exact clip_inBox hbox x hl
  have := xbarModel_inBox c.lb c.ub hbox e x g m hin
  show (xbarModel c.lb c.ub e x g m).length = x.length
  rw [(inBox_length this).1, (inBox_length hin).1]

/-- **C06 / C07 (every split point, complete model)** `restart_at_every_split` for the complete executable model — the
kernels and the stepper are the concrete ones, no hypothesis on them is left -/
theorem restart_at_every_split_complete [Dcsrch.DcOps K] (u : User K ε) (c : Cfg K) (e a : K)
    (hck : c.checkpoint = none) (hS : c.hasScaler = false) (hU : c.hasUpdate = false) (hT : c.ftarget = none)
    (hg : c.gtol = .const a) (hcb : ∀ r, u.callback r = .ok false) (hm : 1 ≤ c.maxcor) (hbox : BoxOk c.lb c.ub)
    (hx0 : c.x0.length = c.lb.length) (hgl : GradLen u c)
    (i0 : Init K) (s0 s : St K) (hi0 : initEval u c = .ok i0) (hp0 : prepare u c i0 = .ok s0)
    (hr : AccReach u (concreteOracles c.lb c.ub e) c s0 s)
    (i : Init K) (sB : St K)
    (hi : initEval u { c with checkpoint := some s.result, x0 := s.x } = .ok i)
    (hp : prepare u { c with checkpoint := some s.result, x0 := s.x } i = .ok sB)
    (hfe : guard c s = true → FirstEval (concreteOracles c.lb c.ub e) c s.x s.f s.g
      (vsub ((concreteOracles c.lb c.ub e).xbar s.x s.g s.mats) s.x) s.nit (min c.maxls (c.maxfun - s.sf.nfev))) :
    ∃ k, ∀ fuel, (mainLoop u (concreteOracles c.lb c.ub e) c (fuel + k) s0).map St.er2 =
      (mainLoop u (concreteOracles c.lb c.ub e) { c with checkpoint := some s.result, x0 := s.x } fuel sB).map St.er2 :=
  restart_at_every_split u _ c a hck hS hU hT hg hcb hm hbox hx0 hgl (xbarLen_concrete c e hbox) i0 s0 s hi0 hp0 hr i sB hi hp hfe

end Lbfgsb.C06

/-! ### Non-vacuity (ℚ): on the instance of `C06Sim` the fresh run's first iteration goes on and its pair is
stored, so `AccReach` holds of a state other than the start, and all environment hypotheses hold. -/
namespace Lbfgsb.C06
open Lbfgsb
section nonvacuous
attribute [local instance] fieldFloatLike

def simCheck : Bool :=
  match initEval simUser simCfg with
  | .ok i0 =>
    match prepare simUser simCfg i0 with
    | .ok s0 =>
      guard simCfg s0 &&
        (match iterBody simUser simOracles simCfg s0 with
         | .ok (s1, .next) => curvOk s1.x s1.g s0.x s0.g simCfg.epsSY && decide (s1.nit = 1)
         | _ => false)
    | _ => false
  | _ => false

theorem simCheck_true : simCheck = true := by decide +kernel

example : ∃ i0 s0 s1, initEval simUser simCfg = .ok i0 ∧ prepare simUser simCfg i0 = .ok s0 ∧
    AccReach simUser simOracles simCfg s0 s1 ∧ s1.nit = 1 := by
  have h := simCheck_true
  unfold simCheck at h
  split at h
  · rename_i i0 hi0
    split at h
    · rename_i s0 hp0
      simp only [Bool.and_eq_true] at h
      obtain ⟨hg, h⟩ := h
      split at h
      · rename_i s1 hb
        simp only [Bool.and_eq_true, decide_eq_true_eq] at h
        exact ⟨i0, s0, s1, hi0, hp0, AccReach.step AccReach.refl hg hb h.1, h.2⟩
      · simp at h
    · simp at h
  · simp at h

example : GradLen simUser simCfg := by
  intro x g h
  simp only [gradSpec, simCfg, simUser, Except.ok.injEq] at h
  rw [← h]

example : XbarLen simOracles simCfg := by
  intro x g m _ _
  simp [simOracles, smul]

example : BoxOk simCfg.lb simCfg.ub := by
  simp only [simCfg, BoxOk]
  norm_num

end nonvacuous
end Lbfgsb.C06
