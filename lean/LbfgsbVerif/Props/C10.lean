/-
  C10 — the limited-memory matrix is the BFGS matrix of the stored pairs and stays SPD.

  Two layers.

  (U) bookkeeping of the memory (`updateMats` = `update_X_and_G` + the snapshot taken by
  `update_lbfgs_matrices`), for arbitrary candidate sequences, any linear order / arithmetic:
    * `mem_le_maxcor`: at most `maxcor + 1` points, i.e. at most `maxcor` pairs;
    * `reject_is_noop`: a rejected candidate leaves the deques *and* the matrices untouched;
    * `accept_appends_and_drops_oldest`: an accepted candidate is appended, and when the
      memory is full the oldest point (hence the oldest pair) is the one discarded;
    * `newest_pair_curv`: the newest stored pair is the one that was tested and it passed:
      `eps * y·y < s·y` — the very term evaluated;
    * `snapshot_is_memory`: after an accepted update the matrices are built from exactly the
      deques (so `theta` is `y·y / s·y` of the newest stored pair).
  (F) algebra of the BFGS update over any ordered field (Mathlib matrices):
    * `bfgs_symm`, `bfgs_secant`, `bfgs_posdef`: one update of a symmetric positive definite
      `B` with `s·y > 0` is symmetric, satisfies the secant equation `B⁺ s = y`, and is
      positive definite; by induction (`bfgs_chain_posdef`) the dense matrix obtained by
      applying any list of positive-curvature pairs to `theta·I`, `theta > 0`, is SPD.
    * `compact_secant`: the COMPACT representation itself, `θ I − W N⁻¹ Wᵀ` with `W = [Y θS]`,
      `N = [[−D, Lᵀ], [L, θ SᵀS]]`, satisfies the secant equation of the newest pair whenever `N`
      is invertible (direct computation, any field) — the property that pins `B` down along `s`.
  That the *compact* representation used by the code (`theta I − W M Wᵀ`, through the
  triangular factors) equals this dense recursion is decided by the correspondence check
  against both the Lean `Float` model and an independent dense recursion (tolerance scaled by
  conditioning) — stated in the evidence as the part not carried by a theorem.
-/
import LbfgsbVerif.Model.Memory
import LbfgsbVerif.Proofs.CompactSecant
import Mathlib.Order.Defs.LinearOrder
import Mathlib.LinearAlgebra.Matrix.DotProduct
import Mathlib.Data.Matrix.Mul
import Mathlib.Algebra.Order.Field.Basic
import Mathlib.Tactic.Ring
import Mathlib.Tactic.FieldSimp
import Mathlib.Tactic.Linarith
import Mathlib.Tactic.Positivity
import Mathlib.Algebra.Order.Field.Rat

namespace Lbfgsb.C10
open Lbfgsb

section U
variable {α : Type} [Add α] [Sub α] [Mul α] [LT α] [DecidableLT α] [OfNat α 0]

/-- **C10 (U1)** a rejected candidate leaves the memory and the matrices untouched. -/
theorem reject_is_noop (xk gk : Vec α) (X G : List (Vec α)) (maxcor : Nat) (mats : Mats α) (eps : α)
    (h : curvOk xk gk (lastD X) (lastD G) eps = false) :
    updateMats xk gk X G maxcor mats eps = (X, G, mats, false) := by
  simp [updateMats, h]

/-- **C10 (U2)** an accepted candidate is appended; when that makes more than `maxcor + 1`
points the oldest one is discarded; the matrices are rebuilt from exactly the new deques. -/
theorem accept_appends_and_drops_oldest (xk gk : Vec α) (X G : List (Vec α)) (maxcor : Nat)
    (mats : Mats α) (eps : α) (h : curvOk xk gk (lastD X) (lastD G) eps = true) :
    let r := updateMats xk gk X G maxcor mats eps
    r.1 = (if (X ++ [xk]).length > maxcor + 1 then (X ++ [xk]).drop 1 else X ++ [xk]) ∧
    r.2.1 = (if (X ++ [xk]).length > maxcor + 1 then (G ++ [gk]).drop 1 else G ++ [gk]) ∧
    r.2.2.1 = some (r.1, r.2.1) ∧ r.2.2.2 = true := by
  simp only [updateMats, h, if_true]
  split <;> simp_all

/-- **C10 (U3)** the memory never holds more than `maxcor + 1` points (`maxcor` pairs). -/
theorem mem_le_maxcor (xk gk : Vec α) (X G : List (Vec α)) (maxcor : Nat) (mats : Mats α) (eps : α)
    (hX : X.length ≤ maxcor + 1) :
    (updateMats xk gk X G maxcor mats eps).1.length ≤ maxcor + 1 := by
  by_cases h : curvOk xk gk (lastD X) (lastD G) eps = true
  · rw [(accept_appends_and_drops_oldest xk gk X G maxcor mats eps h).1]
    split
    · rename_i hgt
      simp only [List.length_drop, List.length_append, List.length_singleton] at hgt ⊢
      omega
    · rename_i hle
      simp only [List.length_append, List.length_singleton] at hle ⊢
      omega
  · have h' : curvOk xk gk (lastD X) (lastD G) eps = false := by simpa using h
    rw [reject_is_noop xk gk X G maxcor mats eps h']
    exact hX

/-- … and this is an invariant of any sequence of candidate updates. -/
theorem mem_le_maxcor_seq (maxcor : Nat) (eps : α) (cands : List (Vec α × Vec α)) (X G : List (Vec α))
    (mats : Mats α) (hX : X.length ≤ maxcor + 1) :
    (cands.foldl (fun (st : List (Vec α) × List (Vec α) × Mats α) c =>
        let r := updateMats c.1 c.2 st.1 st.2.1 maxcor st.2.2 eps
        (r.1, r.2.1, r.2.2.1)) (X, G, mats)).1.length ≤ maxcor + 1 := by
  induction cands generalizing X G mats with
  | nil => simpa using hX
  | cons c cs ih =>
    simp only [List.foldl_cons]
    exact ih _ _ _ (mem_le_maxcor c.1 c.2 X G maxcor mats eps hX)

/-- **C10 (U4)** the newest stored pair passed the curvature test when it entered. -/
theorem newest_pair_curv (xk gk : Vec α) (X G : List (Vec α)) (maxcor : Nat) (mats : Mats α) (eps : α)
    (h : (updateMats xk gk X G maxcor mats eps).2.2.2 = true) :
    eps * dot (vsub gk (lastD G)) (vsub gk (lastD G)) <
      dot (vsub xk (lastD X)) (vsub gk (lastD G)) := by
  unfold updateMats at h
  split at h
  · rename_i hc
    simpa [curvOk] using hc
  · simp at h

end U

/-! ## (F) the BFGS update over an ordered field -/
section F
open Matrix
variable {n : Type} [Fintype n] [DecidableEq n]
variable {K : Type} [Field K] [LinearOrder K] [IsStrictOrderedRing K]

/-- symmetric positive definite, stated without any analysis: `Bᵀ = B` and `xᵀ B x > 0` for
`x ≠ 0` -/
def SPD (B : Matrix n n K) : Prop := Bᵀ = B ∧ ∀ x : n → K, x ≠ 0 → 0 < x ⬝ᵥ (B *ᵥ x)

/-- the BFGS update `B − (Bs)(Bs)ᵀ/(sᵀBs) + y yᵀ/(sᵀy)` -/
noncomputable def bfgs (B : Matrix n n K) (s y : n → K) : Matrix n n K :=
  B - (1 / (s ⬝ᵥ (B *ᵥ s))) • vecMulVec (B *ᵥ s) (B *ᵥ s) + (1 / (s ⬝ᵥ y)) • vecMulVec y y

/-- quadratic form of the update -/
theorem bfgs_quad (B : Matrix n n K) (hB : Bᵀ = B) (s y x : n → K) :
    x ⬝ᵥ (bfgs B s y *ᵥ x) =
      x ⬝ᵥ (B *ᵥ x) - (x ⬝ᵥ (B *ᵥ s)) ^ 2 / (s ⬝ᵥ (B *ᵥ s)) + (x ⬝ᵥ y) ^ 2 / (s ⬝ᵥ y) := by
  have hsym : (B *ᵥ s) ⬝ᵥ x = x ⬝ᵥ (B *ᵥ s) := dotProduct_comm _ _
  simp only [bfgs, add_mulVec, sub_mulVec, smul_mulVec, vecMulVec_mulVec, dotProduct_add,
    dotProduct_sub, dotProduct_smul, smul_eq_mul, op_smul_eq_mul, hsym]
  have h2 : y ⬝ᵥ x = x ⬝ᵥ y := dotProduct_comm _ _
  rw [h2]
  ring

theorem quad_symm (B : Matrix n n K) (hB : Bᵀ = B) (u v : n → K) :
    u ⬝ᵥ (B *ᵥ v) = v ⬝ᵥ (B *ᵥ u) := by
  rw [dotProduct_mulVec, ← mulVec_transpose, hB, dotProduct_comm]

/-- **C10 (F1)** symmetry is preserved. -/
theorem bfgs_symm (B : Matrix n n K) (hB : Bᵀ = B) (s y : n → K) : (bfgs B s y)ᵀ = bfgs B s y := by
  ext i j
  simp only [bfgs, transpose_apply, add_apply, sub_apply, smul_apply, vecMulVec_apply, smul_eq_mul]
  have : B j i = B i j := by
    have := congrFun (congrFun hB i) j
    simpa [transpose_apply] using this
  rw [this]
  ring

/-- **C10 (F2)** the secant equation `B⁺ s = y`. -/
theorem bfgs_secant (B : Matrix n n K) (s y : n → K) (h1 : s ⬝ᵥ (B *ᵥ s) ≠ 0) (h2 : s ⬝ᵥ y ≠ 0) :
    bfgs B s y *ᵥ s = y := by
  ext i
  have e1 : (B *ᵥ s) ⬝ᵥ s = s ⬝ᵥ (B *ᵥ s) := dotProduct_comm _ _
  have e2 : y ⬝ᵥ s = s ⬝ᵥ y := dotProduct_comm _ _
  simp only [bfgs, add_mulVec, sub_mulVec, smul_mulVec, vecMulVec_mulVec, Pi.add_apply,
    Pi.sub_apply, Pi.smul_apply, smul_eq_mul, op_smul_eq_mul, e1, e2]
  field_simp
  ring

/-- **C10 (F3)** positive definiteness is preserved when `s·y > 0`. -/
theorem bfgs_posdef (B : Matrix n n K) (hB : SPD B) (s y : n → K) (hs : s ≠ 0) (hsy : 0 < s ⬝ᵥ y) :
    SPD (bfgs B s y) := by
  refine ⟨bfgs_symm B hB.1 s y, ?_⟩
  intro x hx
  rw [bfgs_quad B hB.1 s y x]
  have hsBs : 0 < s ⬝ᵥ (B *ᵥ s) := hB.2 s hs
  set lam : K := (x ⬝ᵥ (B *ᵥ s)) / (s ⬝ᵥ (B *ᵥ s)) with hlam
  -- quadratic form at z = x - lam • s
  have hz : (x - lam • s) ⬝ᵥ (B *ᵥ (x - lam • s))
      = x ⬝ᵥ (B *ᵥ x) - (x ⬝ᵥ (B *ᵥ s)) ^ 2 / (s ⬝ᵥ (B *ᵥ s)) := by
    have e : s ⬝ᵥ (B *ᵥ x) = x ⬝ᵥ (B *ᵥ s) := quad_symm B hB.1 s x
    simp only [mulVec_sub, mulVec_smul, sub_dotProduct, dotProduct_sub, smul_dotProduct,
      dotProduct_smul, smul_eq_mul, e]
    rw [hlam]
    field_simp
    ring
  by_cases hzero : x - lam • s = 0
  · -- x is a multiple of s
    have hxs : x = lam • s := sub_eq_zero.1 hzero
    have hl0 : lam ≠ 0 := by
      intro h0; apply hx; rw [hxs, h0, zero_smul]
    have h0 : x ⬝ᵥ (B *ᵥ x) - (x ⬝ᵥ (B *ᵥ s)) ^ 2 / (s ⬝ᵥ (B *ᵥ s)) = 0 := by
      rw [← hz, hzero]; simp
    have hxy : x ⬝ᵥ y = lam * (s ⬝ᵥ y) := by rw [hxs, smul_dotProduct, smul_eq_mul]
    rw [h0, hxy, zero_add]
    have : (lam * (s ⬝ᵥ y)) ^ 2 / (s ⬝ᵥ y) = lam ^ 2 * (s ⬝ᵥ y) := by
      field_simp
    rw [this]
    positivity
  · have hpos : 0 < (x - lam • s) ⬝ᵥ (B *ᵥ (x - lam • s)) := hB.2 _ hzero
    rw [hz] at hpos
    have h2 : 0 ≤ (x ⬝ᵥ y) ^ 2 / (s ⬝ᵥ y) := by positivity
    linarith

/-- the dense matrix obtained by applying a list of pairs, oldest first, to `B` -/
noncomputable def bfgsChain (B : Matrix n n K) : List ((n → K) × (n → K)) → Matrix n n K
  | [] => B
  | p :: ps => bfgsChain (bfgs B p.1 p.2) ps

/-- **C10 (F4)** by induction over the stored pairs: starting from `theta·I`, `theta > 0`, and
applying any list of pairs with `s ≠ 0`, `s·y > 0` (what the curvature test guarantees when
`eps ≥ 0`) yields a symmetric positive definite matrix. -/
theorem bfgs_chain_posdef (B : Matrix n n K) (hB : SPD B) (ps : List ((n → K) × (n → K)))
    (hp : ∀ p ∈ ps, p.1 ≠ 0 ∧ 0 < p.1 ⬝ᵥ p.2) : SPD (bfgsChain B ps) := by
  induction ps generalizing B with
  | nil => exact hB
  | cons p ps ih =>
    simp only [bfgsChain]
    have hp0 := hp p (List.mem_cons_self ..)
    exact ih _ (bfgs_posdef B hB p.1 p.2 hp0.1 hp0.2) (fun q hq => hp q (List.mem_cons_of_mem _ hq))

theorem scaled_identity_spd (theta : K) (ht : 0 < theta) : SPD (theta • (1 : Matrix n n K)) := by
  refine ⟨by simp, ?_⟩
  intro x hx
  simp only [smul_mulVec, one_mulVec, dotProduct_smul, smul_eq_mul]
  have : 0 < x ⬝ᵥ x := by
    have hne : ∃ i, x i ≠ 0 := by
      by_contra h
      push_neg at h
      exact hx (funext h)
    obtain ⟨i, hi⟩ := hne
    have hnn : ∀ j ∈ Finset.univ, 0 ≤ x j * x j := fun j _ => mul_self_nonneg _
    have hle : x i * x i ≤ ∑ j, x j * x j := Finset.single_le_sum hnn (Finset.mem_univ i)
    have hpos : 0 < x i * x i := mul_self_pos.2 hi
    simp only [dotProduct]
    linarith
  positivity

/-- **C10 (F5)** the compact representation satisfies the secant equation of the newest pair. -/
theorem compact_secant {ι : Type} [Fintype ι] [DecidableEq ι] [LinearOrder ι]
    (S Y : Matrix n ι K) (θ : K) (Ninv : Matrix (ι ⊕ ι) (ι ⊕ ι) K)
    (hN : Ninv * Compact.N S Y θ = 1) (j0 : ι) (hmax : ∀ i, i ≤ j0) :
    (θ • (1 : Matrix n n K) - Compact.W S Y θ * Ninv * (Compact.W S Y θ)ᵀ) *ᵥ (fun k => S k j0) = fun k => Y k j0 :=
  Compact.compact_secant S Y θ Ninv hN j0 hmax

end F


/-! ### Non-vacuity of `compact_secant`: one pair `s = 1, y = 2` in dimension one, `θ = 2`: `N = diag(−2, 2)` is
invertible -/
section nonvacuous_compact
open Matrix
def S1 : Matrix Unit Unit ℚ := Matrix.of fun _ _ => 1
def Y1 : Matrix Unit Unit ℚ := Matrix.of fun _ _ => 2
theorem A1 : Compact.A S1 Y1 = Matrix.of fun _ _ => (2 : ℚ) := by
  ext i j; simp [Compact.A, Matrix.mul_apply, S1, Y1]
theorem SS1 : S1ᵀ * S1 = Matrix.of fun _ _ => (1 : ℚ) := by
  ext i j; simp [Matrix.mul_apply, S1]
example : (Matrix.fromBlocks (Matrix.of fun _ _ => (-1/2 : ℚ)) 0 0 (Matrix.of fun _ _ => (1/2 : ℚ)) :
    Matrix (Unit ⊕ Unit) (Unit ⊕ Unit) ℚ) * Compact.N S1 Y1 2 = 1 := by
  unfold Compact.N Compact.D Compact.L
  rw [A1, SS1]
  ext (i | i) (j | j) <;> simp [Matrix.mul_apply, Matrix.fromBlocks]
end nonvacuous_compact

end Lbfgsb.C10
