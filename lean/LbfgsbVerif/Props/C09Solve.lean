/-
  C08 / C09 / C10 — the dense solves of the model are exact in exact arithmetic: the "exact solve" hypotheses of
  `gcp_first_local_min` (C08) and `subspace_newton_point` (C09) are discharged.

  The model replaces the triangular factors of the source (`form_invMfactors`, `bmv`, `cho_solve`) by one
  Gauss–Jordan elimination with partial pivoting (`gaussSolve`, Model/Compact.lean). Proofs/Gauss.lean proves, over
  any ordered field and whatever row the pivoting selects, that when no pivot vanishes the vector returned is
  the solution of the system (`gauss_solves`, `gauss_unique`), and that the pivots depend on the matrix only.
  A matrix on which `x ↦ A x` is injective — in particular one with a left inverse — has no vanishing pivot
  (`regular_pivots`: a vanishing pivot yields a non-zero solution of the homogeneous system), and with a positive
  definite model `B` the reduced matrix `N = M⁻¹ − (1/θ)·WᵀZZᵀW` is injective (`maskedN_injective`). So the kernels'
  theorems hold under sizes, `Mm·M⁻¹ = 1` and positive definiteness of `B`, with no assumption on any solve:
    * `middle_product_exact`  : `mv v = Mm·v` for every `v`, from `Mm·M⁻¹ = 1` alone          (C08 `QCtx.hmv`)
    * `gcp_first_local_min_solved`                                                          (C08)
    * `subspace_newton_point_pd` (and, under the computable pivot condition `SubCtxP` instead of positive
      definiteness: `subspace_newton_point_solved`, `subspace_model_no_increase_solved`,
      `subspace_direction_descent_solved`)                                                  (C09)
    * `complete_iteration_descent_solved`                                                   (C01, composed kernels)
-/
import LbfgsbVerif.Proofs.GaussBridge
import LbfgsbVerif.Props.C09Run
import LbfgsbVerif.Props.C08Min
import LbfgsbVerif.Props.Kernels

namespace Lbfgsb.C09
open Lbfgsb Matrix Lbfgsb.Gauss
variable {K : Type} [Field K] [LinearOrder K] [IsStrictOrderedRing K]

/-- **the elimination solves the system** (`A` is `k × k`, no pivot vanishes) -/
theorem gauss_solves (A : List (Vec K)) (b : Vec K) (k : Nat) (hb : b.length = k) (hA : A.length = k)
    (hrow : ∀ i, i < k → (A.getD i []).length = k) (hp : ∀ p ∈ pivotsOf A k, p ≠ 0) :
    (gaussSolve A b).length = k ∧ wmat k k A *ᵥ vec k (gaussSolve A b) = vec k b :=
  gaussSolve_mulVec A b k hb hA hrow (by rw [pivotsOf_rhs A b k hb hA hrow]; exact hp)

/-- **and what it returns is the only solution** -/
theorem gauss_unique (A : List (Vec K)) (b : Vec K) (k : Nat) (hb : b.length = k) (hA : A.length = k)
    (hrow : ∀ i, i < k → (A.getD i []).length = k) (hp : ∀ p ∈ pivotsOf A k, p ≠ 0)
    (x : Fin k → K) (hx : wmat k k A *ᵥ x = vec k b) : x = vec k (gaussSolve A b) := by
  funext r
  have := gaussSolve_unique A b k hb hA hrow (by rw [pivotsOf_rhs A b k hb hA hrow]; exact hp)
    (fun j => if h : j < k then x ⟨j, h⟩ else 0) (by
      intro r hr
      have e := congrFun hx ⟨r, hr⟩
      simp only [mulVec, dotProduct, wmat, vec] at e
      rw [← e, Finset.sum_range]
      apply Finset.sum_congr rfl
      intro j _
      simp [j.2]) r r.2
  simp only [r.2, dif_pos] at this
  exact this

/-- **C08 (the product with the middle matrix is exact)** -/
theorem middle_product_exact (i : CauchyIn K) (k : Nat) (Mm : Matrix (Fin k) (Fin k) K) (uf : i.useFactor = true)
    (hA : i.Minv.length = k) (hrow : ∀ r, r < k → (i.Minv.getD r []).length = k)
    (hM : Mm * wmat k k i.Minv = 1) :
    ∀ v : List K, v.length = k → (i.mv v).length = k ∧ vec k (i.mv v) = Mm *ᵥ vec k v :=
  mv_of_pivots i k Mm uf hA hrow (pivots_of_left_inverse i.Minv k hA hrow Mm hM) hM

/-- **a matrix with a left inverse has no vanishing pivot** — whatever rows the partial pivoting picks -/
theorem regular_pivots (A : List (Vec K)) (k : Nat) (hA : A.length = k)
    (hrow : ∀ i, i < k → (A.getD i []).length = k) (B : Matrix (Fin k) (Fin k) K) (hB : B * wmat k k A = 1) :
    ∀ p ∈ pivotsOf A k, p ≠ 0 :=
  pivots_of_left_inverse A k hA hrow B hB

/-- the context of the Cauchy theorems from the pivot condition -/
theorem qctx_of_pivots (i : CauchyIn K) (n k : Nat) (Mm : Matrix (Fin k) (Fin k) K)
    (hx : i.x.length = n) (hg : i.g.length = n) (hW : i.W.length = n) (hrow : ∀ r, r < n → (i.W.getD r []).length = k)
    (uf : i.useFactor = true) (hA : i.Minv.length = k) (hMrow : ∀ r, r < k → (i.Minv.getD r []).length = k)
    (hM : Mm * wmat k k i.Minv = 1) (hs : (wmat k k i.Minv)ᵀ = wmat k k i.Minv) :
    QCtx i n k Mm :=
  ⟨hx, hg, hW, hrow, C08.middle_symm Mm _ hM hs, middle_product_exact i k Mm uf hA hMrow hM⟩

/-- **C08 (first local minimiser — the product with the middle matrix discharged)** with a non-empty memory: sizes, a
feasible point, `Mm·M⁻¹ = 1` with `M⁻¹` symmetric, a positive definite model and an inactive
floor on `f''` -/
theorem gcp_first_local_min_solved (i : CauchyIn K) (n k : Nat) (Mm : Matrix (Fin k) (Fin k) K) (hk : kOf i = k)
    (hx : i.x.length = n) (hg : i.g.length = n) (hW : i.W.length = n) (hrow : ∀ r, r < n → (i.W.getD r []).length = k)
    (uf : i.useFactor = true) (hA : i.Minv.length = k) (hMrow : ∀ r, r < k → (i.Minv.getD r []).length = k)
    (hM : Mm * wmat k k i.Minv = 1) (hs : (wmat k k i.Minv)ᵀ = wmat k k i.Minv)
    (box : InBoxF i.lb i.ub i.x)
    (pd : ∀ a : Fin n → K, a ≠ 0 → 0 < a ⬝ᵥ (bmat i.theta (wmat n k i.W) Mm *ᵥ a))
    (floor : ∀ dd : Fin n → K, dd ≠ 0 →
      (∀ r, dd r = 0 ∨ dd r = vec n (cauchyD0 (breakpoints i.x i.g i.lb i.ub) i.g) r) →
      i.epsFsec * f2orgOf i ≤ dd ⬝ᵥ (bmat i.theta (wmat n k i.W) Mm *ᵥ dd)) :
    ∃ tF, 0 ≤ tF ∧
      (∀ p q, 0 ≤ p → p < q → q ≤ tF → phi i n k Mm q < phi i n k Mm p) ∧
      (∃ δ, 0 < δ ∧ ∀ τ, tF ≤ τ → τ ≤ tF + δ → phi i n k Mm tF ≤ phi i n k Mm τ) ∧
      (cauchy i).1 = clip (vsub i.x (smul tF i.g)) i.lb i.ub ∧
      vec k (cauchy i).2 =
        (wmat n k i.W)ᵀ *ᵥ (vec n (clip (vsub i.x (smul tF i.g)) i.lb i.ub) - vec n i.x) :=
  C08.gcp_first_local_min i n k Mm hk
    ⟨qctx_of_pivots i n k Mm hx hg hW hrow uf hA hMrow hM hs, box, pd, floor⟩

/-- **C09 (the model returns the box-truncated Newton point — solves discharged)** -/
theorem subspace_newton_point_solved (i : SubIn K) (n k : Nat) (Mm : Matrix (Fin k) (Fin k) K) (h : SubCtxP i n k Mm) :
    ∃ (al : K) (u : Vec K), u.length = n ∧ 0 ≤ al ∧ al ≤ 1 ∧ subspaceMin i = vadd i.xc (smul al u) ∧
      InBoxF i.lb i.ub (subspaceMin i) ∧
      (∀ r, maskF n (freeMask i.xc i.lb i.ub) r = false → vec n u r = 0) ∧
      (∀ r, maskF n (freeMask i.xc i.lb i.ub) r = true →
        (vec n i.g + bmat i.theta (wmat n k i.W) Mm *ᵥ ((vec n i.xc - vec n i.x) + vec n u)) r = 0) :=
  subspace_newton_point i n k Mm _ h.toSubCtx

/-- **C09 (model value — solves discharged)** -/
theorem subspace_model_no_increase_solved (i : SubIn K) (n k : Nat) (Mm : Matrix (Fin k) (Fin k) K)
    (h : SubCtxP i n k Mm) (hsym : Mmᵀ = Mm)
    (hpsd : ∀ a : Fin n → K, 0 ≤ a ⬝ᵥ (bmat i.theta (wmat n k i.W) Mm *ᵥ a)) :
    qmodel (vec n i.g) (bmat i.theta (wmat n k i.W) Mm) (vec n (subspaceMin i) - vec n i.x) ≤
      qmodel (vec n i.g) (bmat i.theta (wmat n k i.W) Mm) (vec n i.xc - vec n i.x) :=
  subspace_model_no_increase i n k Mm _ h.toSubCtx hsym hpsd

/-- **C09 (descent — solves discharged)** -/
theorem subspace_direction_descent_solved (i : SubIn K) (n k : Nat) (Mm : Matrix (Fin k) (Fin k) K)
    (h : SubCtxP i n k Mm) (hsym : Mmᵀ = Mm)
    (hpsd : ∀ a : Fin n → K, 0 ≤ a ⬝ᵥ (bmat i.theta (wmat n k i.W) Mm *ᵥ a))
    (hc : qmodel (vec n i.g) (bmat i.theta (wmat n k i.W) Mm) (vec n i.xc - vec n i.x) < 0) :
    vec n i.g ⬝ᵥ (vec n (subspaceMin i) - vec n i.x) < 0 :=
  subspace_direction_descent i n k Mm _ h.toSubCtx hsym hpsd hc

/-- **C09 (… no hypothesis on any solve)** sizes, a feasible Cauchy point, `Mm·M⁻¹ = 1`, `c = Wᵀ(x_cp − x)` and a positive
definite model: the reduced system is then regular (`maskedN_injective`), so no pivot of either elimination vanishes -/
theorem subspace_newton_point_pd (i : SubIn K) (n k : Nat) (Mm : Matrix (Fin k) (Fin k) K)
    (hx : i.x.length = n) (hg : i.g.length = n) (hxc : i.xc.length = n) (hW : i.W.length = n)
    (hrow : ∀ r, r < n → (i.W.getD r []).length = k) (hcl : i.c.length = k) (box : InBoxF i.lb i.ub i.xc)
    (hθ : i.theta ≠ 0) (uf : i.useFactor = true) (hk : subK i = k) (hMl : i.Minv.length = k)
    (hMrow : ∀ r, r < k → (i.Minv.getD r []).length = k) (hM : Mm * wmat k k i.Minv = 1)
    (hc : vec k i.c = (wmat n k i.W)ᵀ *ᵥ (vec n i.xc - vec n i.x))
    (pd : ∀ a : Fin n → K, a ≠ 0 → 0 < a ⬝ᵥ (bmat i.theta (wmat n k i.W) Mm *ᵥ a)) :
    ∃ (al : K) (u : Vec K), u.length = n ∧ 0 ≤ al ∧ al ≤ 1 ∧ subspaceMin i = vadd i.xc (smul al u) ∧
      InBoxF i.lb i.ub (subspaceMin i) ∧
      (∀ r, maskF n (freeMask i.xc i.lb i.ub) r = false → vec n u r = 0) ∧
      (∀ r, maskF n (freeMask i.xc i.lb i.ub) r = true →
        (vec n i.g + bmat i.theta (wmat n k i.W) Mm *ᵥ ((vec n i.xc - vec n i.x) + vec n u)) r = 0) :=
  subspace_newton_point_solved i n k Mm (SubCtxP.of_pd hx hg hxc hW hrow hcl box hθ uf hk hMl hMrow hM hc pd)

/-- **C01 (descent at every non-stationary iterate, for the composed kernels — solves discharged)**: the direction
`x̄ − x` the complete model computes from the memory snapshot is a descent direction, under: sizes, `Mm·M⁻¹ = 1` with
`M⁻¹` symmetric, non-vanishing pivots of the two eliminations, a positive definite model and an inactive floor. -/
theorem complete_iteration_descent_solved (lb ub : Vec K) (e : K) (x g : Vec K) (mats : Mats K) (n k : Nat)
    (Mm : Matrix (Fin k) (Fin k) K)
    (hk : kOf (kernelInput x g lb ub mats e) = k)
    (hx : (kernelInput x g lb ub mats e).x.length = n) (hg : (kernelInput x g lb ub mats e).g.length = n)
    (hW : (kernelInput x g lb ub mats e).W.length = n)
    (hrow : ∀ r, r < n → ((kernelInput x g lb ub mats e).W.getD r []).length = k)
    (uf : (kernelInput x g lb ub mats e).useFactor = true)
    (hs : (wmat k k (kernelInput x g lb ub mats e).Minv)ᵀ = wmat k k (kernelInput x g lb ub mats e).Minv)
    (box : InBoxF (kernelInput x g lb ub mats e).lb (kernelInput x g lb ub mats e).ub (kernelInput x g lb ub mats e).x)
    (pd : ∀ a : Fin n → K, a ≠ 0 →
      0 < a ⬝ᵥ (bmat (kernelInput x g lb ub mats e).theta (wmat n k (kernelInput x g lb ub mats e).W) Mm *ᵥ a))
    (floor : ∀ dd : Fin n → K, dd ≠ 0 →
      (∀ r, dd r = 0 ∨ dd r = vec n (cauchyD0 (breakpoints (kernelInput x g lb ub mats e).x (kernelInput x g lb ub mats e).g
        (kernelInput x g lb ub mats e).lb (kernelInput x g lb ub mats e).ub) (kernelInput x g lb ub mats e).g) r) →
      (kernelInput x g lb ub mats e).epsFsec * f2orgOf (kernelInput x g lb ub mats e) ≤
        dd ⬝ᵥ (bmat (kernelInput x g lb ub mats e).theta (wmat n k (kernelInput x g lb ub mats e).W) Mm *ᵥ dd))
    (hns : projgr (kernelInput x g lb ub mats e).x (kernelInput x g lb ub mats e).g
      (kernelInput x g lb ub mats e).lb (kernelInput x g lb ub mats e).ub ≠ 0)
    (hsub : SubCtxP (subInOf (kernelInput x g lb ub mats e)) n k Mm) :
    vec n (kernelInput x g lb ub mats e).g ⬝ᵥ
      (vec n (xbarModel lb ub e x g mats) - vec n (kernelInput x g lb ub mats e).x) < 0 :=
  Lbfgsb.complete_iteration_descent lb ub e x g mats n k Mm _ hk
    ⟨qctx_of_pivots _ n k Mm hx hg hW hrow uf hsub.hMl hsub.hMrow hsub.hM hs, box, pd, floor⟩ hns hsub.toSubCtx

end Lbfgsb.C09

/-! ### Non-vacuity (ℚ): the instance of `C09Run` — its pivots are computed and do not vanish -/
namespace Lbfgsb.C09
open Lbfgsb Matrix Lbfgsb.Gauss
section nonvacuous

theorem ex_pivM : pivotsOf exSub.Minv 2 = [-1, 2] := by decide +kernel
theorem ex_pivN : pivotsOf (subN exSub) 2 = [-2, 2] := by decide +kernel

theorem ex_subctxP : SubCtxP exSub 2 2 exM where
  hx := rfl
  hg := rfl
  hxc := rfl
  hW := rfl
  hrow := ex_subctx.hrow
  hcl := rfl
  box := ex_subctx.box
  hθ := ex_subctx.hθ
  uf := rfl
  hk := rfl
  hMl := rfl
  hMrow := by
    intro r hr
    match r, hr with
    | 0, _ => rfl
    | 1, _ => rfl
  hM := by
    ext a b
    fin_cases a <;> fin_cases b <;> simp [exM, exSub, wmat, Matrix.mul_apply, Fin.sum_univ_two]
  hc := ex_subctx.hc
  pivN := by rw [ex_pivN]; decide

example : ∃ (al : ℚ) (u : Vec ℚ), 0 ≤ al ∧ al ≤ 1 ∧ subspaceMin exSub = vadd exSub.xc (smul al u) :=
  let ⟨al, u, _, h0, h1, he, _⟩ := subspace_newton_point_solved exSub 2 2 exM ex_subctxP
  ⟨al, u, h0, h1, he⟩

/-- a 3 × 3 system whose first pivot needs a row exchange -/
example : gaussSolve ([[0, 2, 1], [1, 1, 0], [3, 0, 1]] : List (Vec ℚ)) [5, 3, 6] = [7 / 5, 8 / 5, 9 / 5] ∧
    pivotsOf ([[0, 2, 1], [1, 1, 0], [3, 0, 1]] : List (Vec ℚ)) 3 = [3, 2, -5 / 6] := by decide +kernel

end nonvacuous
end Lbfgsb.C09
