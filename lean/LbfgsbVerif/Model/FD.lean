/-
  Executable model of the finite-difference gradient the package obtains from
  `scipy.optimize._numdiff.approx_derivative(fun_wrapped, x, f0=f, method=…, abs_step=eps,
  bounds=(lb, ub))` (`lbfgsb/scalar_function.py : update_grad`), per coordinate:

    * the step: `h = eps`, replaced by `eps_method · sign(x) · max(1, |x|)` when `(x + h) − x = 0`;
    * `_adjust_scheme_to_bounds(x0, h, 1, '1-sided' | '2-sided', lb, ub)`;
    * the stencil of `_dense_difference` and its combination into a partial derivative;
    * the package's own post-processing: a component with `lb = ub` gets derivative `0`.

  Only core classes; executed at `Float` by the driver (`fd` command) and compared bit for bit
  with every stencil and every gradient recorded from real runs.
-/
import LbfgsbVerif.Model.Basic

namespace Lbfgsb.FD
open Lbfgsb
variable {α : Type} [Add α] [Sub α] [Mul α] [Div α] [Neg α] [LT α] [DecidableLT α]
  [OfNat α 0] [OfNat α 1]

/-- `a ≤ b` on non-NaN values -/
def le (a b : α) : Bool := !(decide (b < a))

/-- the step before the adjustment to the bounds: `h = eps` unless it is absorbed by `x` -/
def step0 (x eps epsMethod : α) : α :=
  if feq ((x + eps) - x) 0 then
    epsMethod * (if le 0 x then 1 else -1) * fmax 1 (fabs x)
  else eps

/-- `_compute_absolute_step(rel_step, x0, f0, method)` (the path taken for `jac` in
'2-point' / '3-point': `abs_step = None`) -/
def stepRel (x : α) (rel : Option α) (epsMethod : α) : α :=
  let sign : α := if le 0 x then 1 else -1
  let dflt := epsMethod * sign * fmax 1 (fabs x)
  match rel with
  | none => dflt
  | some r =>
    let a := r * sign * fabs x
    if feq ((x + a) - x) 0 then dflt else a

/-- `_adjust_scheme_to_bounds(…, num_steps = 1, '1-sided', …)` for one coordinate -/
def adjust1 (x h lb ub : α) : α :=
  let hTotal := h * 1
  let lower := x - lb
  let upper := ub - x
  let xx := x + hTotal
  let violated := decide (xx < lb) || decide (ub < xx)
  let fitting := le (fabs hTotal) (fmax lower upper)
  if fitting then (if violated then h * (-1) else h)
  else if le lower upper then upper / 1 else (-lower) / 1

/-- `_adjust_scheme_to_bounds(…, num_steps = 1, '2-sided', …)` for one coordinate: the step and
whether the one-sided three-point formula is used -/
def adjust2 (x h lb ub : α) : α × Bool :=
  let half : α := 1 / (1 + 1)
  let h := fabs h
  let hTotal := h * 1
  let lower := x - lb
  let upper := ub - x
  let central := le hTotal lower && le hTotal upper
  if central then (h, false) else
  let hadj := if le lower upper then fmin h (half * upper / 1) else -(fmin h (half * lower / 1))
  let minDist := fmin upper lower / 1
  if le (fabs hadj) minDist then (minDist, false) else (hadj, true)

inductive Scheme | two | three
  deriving DecidableEq, Repr

/-- the stencil of one coordinate as the differencing routine forms it (the other coordinates
are those of `x`) -/
def points1Raw (s : Scheme) (x h lb ub : α) : List α :=
  match s with
  | .two => [x + adjust1 x h lb ub]
  | .three =>
    let a := adjust2 x h lb ub
    if a.2 then [x + a.1, x + (1 + 1) * a.1] else [x - a.1, x + a.1]

/-- … and as the package hands it to the objective: projected onto `[lb, ub]`
(`fun_in_bounds` in `scalar_function.py`), since `x + h` may round one ulp past a bound -/
def points1 (s : Scheme) (x h lb ub : α) : List α :=
  (points1Raw s x h lb ub).map (clip1 lb ub)

/-- the partial derivative from the objective values at the stencil (`vals`, in the order of
`points1`) and at the base point -/
def deriv1 (s : Scheme) (x h lb ub f0 : α) (vals : List α) : α :=
  match s, vals with
  | .two, [f1] =>
    let ha := adjust1 x h lb ub
    (f1 - f0) / ((x + ha) - x)
  | .three, [f1, f2] =>
    let a := adjust2 x h lb ub
    if a.2 then
      let three : α := 1 + 1 + 1
      let four : α := 1 + 1 + 1 + 1
      (((-three) * f0 + four * f1) - f2) / ((x + (1 + 1) * a.1) - x)
    else (f2 - f1) / ((x + a.1) - (x - a.1))
  | _, _ => 0

/-- all stencil points of a gradient, in evaluation order: coordinate by coordinate, the other
coordinates being those of `x` (`pre` = the coordinates already passed) -/
def pointsGo (s : Scheme) (hOf : α → α) : List α → List α → List α → List α → List (Vec α)
  | pre, xi :: xs, li :: ls, ui :: us =>
    (points1 s xi (hOf xi) li ui).map (fun v => pre ++ v :: xs) ++ pointsGo s hOf (pre ++ [xi]) xs ls us
  | _, _, _, _ => []

def points (s : Scheme) (hOf : α → α) (x lb ub : Vec α) : List (Vec α) := pointsGo s hOf [] x lb ub

/-- the gradient from the values at the stencil (in the order of `points`), with the package's
post-processing of fixed components -/
def grad (s : Scheme) (hOf : α → α) (x lb ub : Vec α) (f0 : α) (vals : List α) : Vec α :=
  let k := match s with | .two => 1 | .three => 2
  let rec go : List α → List α → List α → List α → Vec α
    | xi :: xs, li :: ls, ui :: us, vs =>
      let d := deriv1 s xi (hOf xi) li ui f0 (vs.take k)
      (if feq li ui then 0 else d) :: go xs ls us (vs.drop k)
    | _, _, _, _ => []
  go x lb ub vals

end Lbfgsb.FD
