/-
  Executable model of SciPy's pure-Python Moré–Thuente stepper
  `scipy.optimize._dcsrch.DCSRCH._iterate` + `dcstep` (the line search the package drives from
  `lbfgsb/linesearch.py` when SciPy ≥ 1.12), statement by statement, same operand order.

  The driver model (`Model/Shell.lean`) treats this stepper as an oracle (`Oracles.dcIter`);
  this file makes the oracle concrete, so that
    * the correspondence check can compare it bit for bit with every recorded call of the real
      stepper (driver command `dcsrch`), and
    * the contract the C11 theorems rely on — every step proposed for evaluation lies in
      `[stpmin, stpmax]` — becomes a theorem (`Props/C11.lean: dcsrch_steps_in_range`).

  Scalar operations that are not core classes (`** 2`, IEEE `<=` and `==`, which differ from
  `¬ >` and `¬ < ∧ ¬ >` on NaN) are collected in `DcOps`.
-/
import LbfgsbVerif.Model.Basic
import LbfgsbVerif.Model.Shell

namespace Lbfgsb.Dcsrch
open Lbfgsb

/-- `x ** 2` (libm `pow(x, 2.0)`, not always `x * x` in the last bit), IEEE `<=`, IEEE `==` -/
class DcOps (α : Type) where
  sq : α → α
  le : α → α → Bool
  eq : α → α → Bool

variable {α : Type} [Add α] [Sub α] [Mul α] [Div α] [Neg α] [LT α] [DecidableLT α]
  [OfNat α 0] [OfNat α 1] [FloatLike α] [DcOps α]

/-- small integer constants, exact in every arithmetic considered -/
def nat : Nat → α
  | 0 => 0
  | n + 1 => nat n + 1

def p5 : α := 1 / nat 2          -- 0.5
def p66 : α := nat 66 / nat 100  -- the double nearest to 0.66
def xtrapl : α := nat 11 / nat 10  -- the double nearest to 1.1
def xtrapu : α := nat 4

def sign (x : α) : α := if 0 < x then 1 else if x < 0 then -1 else 0

/-- Python `max(a, b, c)` -/
def max3 (a b c : α) : α := fmax (fmax a b) c

structure DC (α : Type) where
  ftol : α
  gtol : α
  xtol : α
  stpmin : α
  stpmax : α
  brackt : Bool
  stage : Nat
  finit : α
  ginit : α
  gtest : α
  width : α
  width1 : α
  stx : α
  fx : α
  gx : α
  sty : α
  fy : α
  gy : α
  stmin : α
  stmax : α

def DC.new (ftol gtol xtol stpmin stpmax : α) : DC α :=
  { ftol, gtol, xtol, stpmin, stpmax, brackt := false, stage := 1, finit := 0, ginit := 0, gtest := 0,
    width := 0, width1 := 0, stx := 0, fx := 0, gx := 0, sty := 0, fy := 0, gy := 0, stmin := 0, stmax := 0 }

/-- the new trial step of `dcstep` and the new bracketing flag -/
def dcstepNew (stx fx dx sty fy dy stp fp dp : α) (brackt : Bool) (stpmin stpmax : α) : α × Bool :=
  let sgnd := sign dp * sign dx
  let three : α := nat 3
  let two : α := nat 2
    if fx < fp then
      let theta := three * (fx - fp) / (stp - stx) + dx + dp
      let s := max3 (fabs theta) (fabs dx) (fabs dp)
      let gamma := s * FloatLike.sqrt (DcOps.sq (theta / s) - (dx / s) * (dp / s))
      let gamma := if stp < stx then gamma * (-1) else gamma
      let p := (gamma - dx) + theta
      let q := ((gamma - dx) + gamma) + dp
      let r := p / q
      let stpc := stx + r * (stp - stx)
      let stpq := stx + ((dx / ((fx - fp) / (stp - stx) + dx)) / two) * (stp - stx)
      (if DcOps.le (fabs (stpc - stx)) (fabs (stpq - stx)) then stpc else stpc + (stpq - stpc) / two, true)
    else if sgnd < 0 then
      let theta := three * (fx - fp) / (stp - stx) + dx + dp
      let s := max3 (fabs theta) (fabs dx) (fabs dp)
      let gamma := s * FloatLike.sqrt (DcOps.sq (theta / s) - (dx / s) * (dp / s))
      let gamma := if stx < stp then gamma * (-1) else gamma
      let p := (gamma - dp) + theta
      let q := ((gamma - dp) + gamma) + dx
      let r := p / q
      let stpc := stp + r * (stx - stp)
      let stpq := stp + (dp / (dp - dx)) * (stx - stp)
      (if fabs (stpq - stp) < fabs (stpc - stp) then stpc else stpq, true)
    else if fabs dp < fabs dx then
      let theta := three * (fx - fp) / (stp - stx) + dx + dp
      let s := max3 (fabs theta) (fabs dx) (fabs dp)
      let gamma := s * FloatLike.sqrt (fmax 0 (DcOps.sq (theta / s) - (dx / s) * (dp / s)))
      let gamma := if stx < stp then -gamma else gamma
      let p := (gamma - dp) + theta
      let q := (gamma + (dx - dp)) + gamma
      let r := p / q
      let stpc := if r < 0 ∧ !(DcOps.eq gamma 0) then stp + r * (stx - stp)
                  else if stx < stp then stpmax else stpmin
      let stpq := stp + (dp / (dp - dx)) * (stx - stp)
      if brackt then
        let stpf := if fabs (stpc - stp) < fabs (stpq - stp) then stpc else stpq
        (if stx < stp then fmin (stp + p66 * (sty - stp)) stpf else fmax (stp + p66 * (sty - stp)) stpf, brackt)
      else
        let stpf := if fabs (stpq - stp) < fabs (stpc - stp) then stpc else stpq
        (clip1 stpmin stpmax stpf, brackt)
    else
      if brackt then
        let theta := three * (fp - fy) / (sty - stp) + dy + dp
        let s := max3 (fabs theta) (fabs dy) (fabs dp)
        let gamma := s * FloatLike.sqrt (DcOps.sq (theta / s) - (dy / s) * (dp / s))
        let gamma := if sty < stp then -gamma else gamma
        let p := (gamma - dp) + theta
        let q := ((gamma - dp) + gamma) + dy
        let r := p / q
        (stp + r * (sty - stp), brackt)
      else if stx < stp then (stpmax, brackt) else (stpmin, brackt)

/-- `dcstep`: returns `(stx, fx, dx, sty, fy, dy, stp, brackt)` — the new trial step and the
updated interval which contains a minimiser -/
def dcstep (stx fx dx sty fy dy stp fp dp : α) (brackt : Bool) (stpmin stpmax : α) :
    α × α × α × α × α × α × α × Bool :=
  let r := dcstepNew stx fx dx sty fy dy stp fp dp brackt stpmin stpmax
  if fx < fp then (stx, fx, dx, stp, fp, dp, r.1, r.2)
  else if sign dp * sign dx < 0 then (stp, fp, dp, stx, fx, dx, r.1, r.2)
  else (stp, fp, dp, sty, fy, dy, r.1, r.2)

/-- the first call (`task = START`): argument checks and initialisation -/
def start (st : DC α) (stp f g : α) : DC α × α × Task :=
  let bad : Bool :=
    decide (stp < st.stpmin) || decide (st.stpmax < stp) || DcOps.le 0 g || decide (st.ftol < 0) ||
    decide (st.gtol < 0) || decide (st.xtol < 0) || decide (st.stpmin < 0) || decide (st.stpmax < st.stpmin)
  if bad then (st, stp, .error) else
  let gtest := st.ftol * g
  let width := st.stpmax - st.stpmin
  ({ st with brackt := false, stage := 1, finit := f, ginit := g, gtest := gtest, width := width,
             width1 := width / p5, stx := 0, fx := f, gx := g, sty := 0, fy := f, gy := g, stmin := 0,
             stmax := stp + xtrapu * stp }, stp, .fg)

/-- the call of `dcstep` (on the modified function during the first stage when a lower value
without sufficient decrease was obtained), with the function values reset afterwards: returns
`(stx, fx, gx, sty, fy, gy, stp, brackt)` -/
def stepCall (st : DC α) (stp f g ftest : α) : α × α × α × α × α × α × α × Bool :=
  if st.stage = 1 ∧ DcOps.le f st.fx ∧ ftest < f then
    let fm := f - stp * st.gtest
    let fxm := st.fx - st.stx * st.gtest
    let fym := st.fy - st.sty * st.gtest
    let gm := g - st.gtest
    let gxm := st.gx - st.gtest
    let gym := st.gy - st.gtest
    let t := dcstep st.stx fxm gxm st.sty fym gym stp fm gm st.brackt st.stmin st.stmax
    (t.1, t.2.1 + t.1 * st.gtest, t.2.2.1 + st.gtest, t.2.2.2.1, t.2.2.2.2.1 + t.2.2.2.1 * st.gtest,
     t.2.2.2.2.2.1 + st.gtest, t.2.2.2.2.2.2.1, t.2.2.2.2.2.2.2)
  else dcstep st.stx st.fx st.gx st.sty st.fy st.gy stp f g st.brackt st.stmin st.stmax

/-- bisection safeguard -/
def bisect (st : DC α) (stp : α) : α :=
  if st.brackt ∧ DcOps.le (p66 * st.width1) (fabs (st.sty - st.stx)) then st.stx + p5 * (st.sty - st.stx) else stp

def widen (st : DC α) : DC α :=
  if st.brackt then { st with width1 := st.width, width := fabs (st.sty - st.stx) } else st

/-- the minimum and maximum steps allowed for the next trial -/
def bounds (st : DC α) (stp : α) : DC α :=
  if st.brackt then { st with stmin := fmin st.stx st.sty, stmax := fmax st.stx st.sty }
  else { st with stmin := stp + xtrapl * (stp - st.stx), stmax := stp + xtrapu * (stp - st.stx) }

/-- projection on `[stpmin, stpmax]`, and fall-back on the best step when no progress is possible -/
def project (st : DC α) (stp : α) : α :=
  let s := clip1 st.stpmin st.stpmax stp
  if (st.brackt && (DcOps.le s st.stmin || DcOps.le st.stmax s)) ||
     (st.brackt && DcOps.le (st.stmax - st.stmin) (st.xtol * st.stmax)) then st.stx else s

/-- after `dcstep`: bisection safeguard, new bounds `stmin`/`stmax` for the step, projection on
`[stpmin, stpmax]`, fall-back on the best step -/
def finish (st : DC α) (stp : α) : DC α × α × Task :=
  let stp1 := bisect st stp
  let st2 := bounds (widen st) stp1
  (st2, project st2 stp1, .fg)

/-- neither converged nor stuck: compute the next trial step -/
def advance (st : DC α) (stp f g ftest : α) : DC α × α × Task :=
  let t := stepCall st stp f g ftest
  finish { st with stx := t.1, fx := t.2.1, gx := t.2.2.1, sty := t.2.2.2.1, fy := t.2.2.2.2.1,
                   gy := t.2.2.2.2.2.1, brackt := t.2.2.2.2.2.2.2 } t.2.2.2.2.2.2.1

/-- `DCSRCH._iterate(stp, f, g, task)`: new state, the step, the task class -/
def iterate (st : DC α) (stp f g : α) (task : Task) : DC α × α × Task :=
  if task = .start then start st stp f g else
  let ftest := st.finit + stp * st.gtest
  let stage := if st.stage = 1 ∧ DcOps.le f ftest ∧ DcOps.le 0 g then 2 else st.stage
  let st := { st with stage := stage }
  let w1 := st.brackt && (DcOps.le stp st.stmin || DcOps.le st.stmax stp)
  let w2 := st.brackt && DcOps.le (st.stmax - st.stmin) (st.xtol * st.stmax)
  let w3 := DcOps.eq stp st.stpmax && DcOps.le f ftest && DcOps.le g st.gtest
  let w4 := DcOps.eq stp st.stpmin && (decide (ftest < f) || DcOps.le st.gtest g)
  let conv := DcOps.le f ftest && DcOps.le (fabs g) (st.gtol * (-st.ginit))
  if conv then (st, stp, .conv)
  else if w1 || w2 || w3 || w4 then (st, stp, .warn)
  else advance st stp f g ftest

/-- feed the answers `(f, g)` of the caller to the stepper and collect what it returns -/
def trace (st : DC α) (stp : α) (task : Task) : List (α × α) → List (α × Task)
  | [] => []
  | (f, g) :: rest =>
    let r := iterate st stp f g task
    (r.2.1, r.2.2) :: (if r.2.2 = .fg then trace r.1 r.2.1 .fg rest else [])

end Lbfgsb.Dcsrch
