/-
  Model of `lbfgsb/scalar_function.py` : class `ScalarFunction`
  (the memoising wrapper around the user's objective and gradient).

  Source correspondence (line numbers of the pinned tree):
    update_x          153-159   `SF.updateX`
    _update_fun       161-164   `SF.updFun`      (fun_wrapped 105-125: count, call the user)
    _update_grad      166-169   `SF.updGrad`     (callable 135-140 / finite differences 144-149)
    fun/grad/fun_and_grad 171-188  `SF.funv` / `SF.gradv` / `SF.funAndGrad`

  The user's functions are *arbitrary* functions into `Except ε`; the differencing routine
  (SciPy's `approx_derivative`, external code) is an oracle: it chooses the stencil points
  from `(x, f x)` and combines the values — the values themselves come from the user's `F`,
  through the same counting wrapper.
-/
import LbfgsbVerif.Model.Basic

namespace Lbfgsb

inductive CallKind | F | G | callback | update | scaler | ftarget | gtol
  deriving DecidableEq, Repr, Inhabited

/-- one request made to a user callable (the point is `[]` for argument-less callables). -/
structure Call (α : Type) where
  kind : CallKind
  arg : Vec α

inductive GradMode | callable | fd
  deriving DecidableEq, Repr, Inhabited

/-- the user's objective/gradient and the differencing oracle. -/
structure SFUser (α ε : Type) where
  F : Vec α → Except ε α
  Gr : Vec α → Except ε (Vec α)
  /-- stencil points `approx_derivative` evaluates, given `x` and `f x` -/
  fdPts : Vec α → α → List (Vec α)
  /-- how it combines `x`, `f x` and the stencil values into a gradient -/
  fdComb : Vec α → α → List α → Vec α

structure SF (α : Type) where
  mode : GradMode
  /-- `finite_diff_bounds` (used by the differencing modes only) -/
  lb : Vec α
  ub : Vec α
  x : Vec α
  f : α
  g : Vec α
  fUpd : Bool
  gUpd : Bool
  nfev : Nat
  ngev : Nat
  scale : α
  /-- every request to a user callable, in order (extended by the shell for the other
  callables) -/
  log : List (Call α)

variable {α ε : Type}

def SF.new [OfNat α 0] [OfNat α 1] (mode : GradMode) (x0 : Vec α)
    (lb : Vec α := []) (ub : Vec α := []) : SF α :=
  { mode, lb, ub, x := x0, f := 0, g := [], fUpd := false, gUpd := false, nfev := 0, ngev := 0,
    scale := 1, log := [] }

section
variable [LT α] [DecidableLT α]

/-- `if not np.array_equal(x, self.x): self.update_x(x)` -/
def SF.updateX (s : SF α) (x : Vec α) : SF α :=
  if veq x s.x then s else { s with x := x, fUpd := false, gUpd := false }

/-- `fun_wrapped`: count, log, call the user. -/
def SF.callF (u : SFUser α ε) (s : SF α) (p : Vec α) : Except ε (SF α × α) := do
  let s := { s with nfev := s.nfev + 1, log := s.log ++ [Call.mk .F p] }
  let v ← u.F p
  pure (s, v)

def SF.updFun (u : SFUser α ε) (s : SF α) : Except ε (SF α) :=
  if s.fUpd then pure s else do
    let (s, v) ← s.callF u s.x
    pure { s with f := v, fUpd := true }

/-- evaluate the user's `F` on a list of stencil points, through the counting wrapper. -/
def SF.callFs (u : SFUser α ε) : SF α → List (Vec α) → Except ε (SF α × List α)
  | s, [] => pure (s, [])
  | s, p :: ps => do
    let (s, v) ← s.callF u p
    let (s, vs) ← SF.callFs u s ps
    pure (s, v :: vs)

/-- `np.where(lb == ub, 0.0, g)`: the partial derivative along a variable fixed by equal
bounds is reported as zero (scalar_function.py, after `approx_derivative`). -/
def zeroFixed [OfNat α 0] : Vec α → Vec α → Vec α → Vec α
  | l :: ls, u :: us, g :: gs => (if feq l u then 0 else g) :: zeroFixed ls us gs
  | _, _, gs => gs

def SF.updGrad [OfNat α 0] (u : SFUser α ε) (s : SF α) : Except ε (SF α) :=
  if s.gUpd then pure s else
  match s.mode with
  | .callable => do
    let s := { s with ngev := s.ngev + 1, log := s.log ++ [Call.mk .G s.x] }
    let g ← u.Gr s.x
    pure { s with g := g, gUpd := true }
  | .fd => do
    let s ← s.updFun u
    let s := { s with ngev := s.ngev + 1 }
    let (s, vs) ← SF.callFs u s (u.fdPts s.x s.f)
    pure { s with g := zeroFixed s.lb s.ub (u.fdComb s.x s.f vs), gUpd := true }

variable [Mul α] [OfNat α 0]

def SF.funv (u : SFUser α ε) (s : SF α) (x : Vec α) : Except ε (SF α × α) := do
  let s ← (s.updateX x).updFun u
  pure (s, s.f * s.scale)

def SF.gradv (u : SFUser α ε) (s : SF α) (x : Vec α) : Except ε (SF α × Vec α) := do
  let s ← (s.updateX x).updGrad u
  pure (s, vscale s.g s.scale)

def SF.funAndGrad (u : SFUser α ε) (s : SF α) (x : Vec α) :
    Except ε (SF α × α × Vec α) := do
  let s ← (s.updateX x).updFun u
  let s ← s.updGrad u
  pure (s, s.f * s.scale, vscale s.g s.scale)

/-- the operations a client can perform on the wrapper -/
inductive SFOp (α : Type)
  | funv (x : Vec α)
  | gradv (x : Vec α)
  | funAndGrad (x : Vec α)
  | setScale (s : α)

inductive SFOut (α : Type)
  | val (f : α)
  | grad (g : Vec α)
  | both (f : α) (g : Vec α)
  | unit

def SF.step (u : SFUser α ε) (s : SF α) : SFOp α → Except ε (SF α × SFOut α)
  | .funv x => do let (s, f) ← s.funv u x; pure (s, .val f)
  | .gradv x => do let (s, g) ← s.gradv u x; pure (s, .grad g)
  | .funAndGrad x => do let (s, f, g) ← s.funAndGrad u x; pure (s, .both f g)
  | .setScale c => pure ({ s with scale := c }, .unit)

def SF.steps (u : SFUser α ε) : SF α → List (SFOp α) → Except ε (SF α × List (SFOut α))
  | s, [] => pure (s, [])
  | s, op :: ops => do
    let (s, o) ← s.step u op
    let (s, os) ← SF.steps u s ops
    pure (s, o :: os)

end
end Lbfgsb
