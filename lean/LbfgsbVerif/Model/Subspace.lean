/-
  Executable model of `lbfgsb/subspacemin.py : get_freev + subspace_minimization` (direct
  primal method, section 5.1 of Byrd–Lu–Nocedal):

    free set  F = { i : x_cp,i ≠ lb_i ∧ x_cp,i ≠ ub_i }
    r   = g + theta (x_cp − x) − W M c
    v   = (M⁻¹ − (1/theta) WᵀZ ZᵀW)⁻¹ WᵀZ r̂            (one dense solve; LELᵀ factors in the source)
    d̂   = −(1/theta) ( r̂ + (1/theta) ZᵀW v )
    α*  = min(1, min_{i ∈ F, d̂_i ≠ 0} ((ub_i − x_cp,i)/d̂_i if d̂_i > 0 else (lb_i − x_cp,i)/d̂_i))
    x̄   = clip( x_cp + α* Z d̂ )
-/
import LbfgsbVerif.Model.Basic
import LbfgsbVerif.Model.Compact
import LbfgsbVerif.Model.Cauchy

namespace Lbfgsb
variable {α : Type} [Add α] [Sub α] [Mul α] [Div α] [Neg α] [LT α] [DecidableLT α]
  [OfNat α 0] [OfNat α 1]

/-- `get_freev`: is variable `i` free at the Cauchy point -/
def isFree (xc lb ub : α) : Bool := !(feq xc ub) && !(feq xc lb)

def freeMask (xc lb ub : Vec α) : List Bool :=
  match xc, lb, ub with
  | a :: as, l :: ls, u :: us => isFree a l u :: freeMask as ls us
  | _, _, _ => []

/-- the step along `d` (zero on the active variables) truncated to the box: Eq. (5.8) -/
def alphaStar (xc d lb ub : Vec α) (mask : List Bool) : α :=
  let rec cand : Vec α → Vec α → Vec α → Vec α → List Bool → List α
    | xi :: xs, di :: ds, li :: ls, ui :: us, m :: ms =>
      let rest := cand xs ds ls us ms
      if !m || feq di 0 then rest
      else (if 0 < di then (ui - xi) / di else (li - xi) / di) :: rest
    | _, _, _, _, _ => []
  (cand xc d lb ub mask).foldl fmin 1

structure SubIn (α : Type) extends CauchyIn α where
  xc : Vec α
  c : Vec α

def subspaceMin (i : SubIn α) : Vec α :=
  let mask := freeMask i.xc i.lb i.ub
  if !(mask.any id) then i.xc else
  let invTh := 1 / i.theta
  let k := match i.W with | r :: _ => r.length | [] => 0
  -- r = g + theta (xc - x) - W M c
  let r0 := vadd i.g (smul i.theta (vsub i.xc i.x))
  let r := if i.useFactor then vsub r0 (i.W.map fun row => dot row (i.toCauchyIn.mv i.c)) else r0
  -- masked quantities (zero on the active set) play the role of Z
  let rHat := (r.zip mask).map fun (a, m) => if m then a else 0
  let Wz := (i.W.zip mask).map fun (row, m) => if m then row else row.map fun _ => 0
  let v0 := wtv Wz rHat k
  let v :=
    if i.useFactor then
      let WtZZtW : List (Vec α) := (List.range k).map fun a => (List.range k).map fun b =>
        dot (Wz.map fun row => row.getD a 0) (Wz.map fun row => row.getD b 0)
      let N := (i.Minv.zip WtZZtW).map fun (ra, rb) => vsub ra (smul invTh rb)
      gaussSolve N v0
    else v0.map fun _ => 0
  let ZtWv := Wz.map fun row => dot row v
  let dHat := (rHat.zip ZtWv).map fun (a, b) => -(invTh * (a + invTh * b))
  let dHat := (dHat.zip mask).map fun (a, m) => if m then a else 0
  let al := alphaStar i.xc dHat i.lb i.ub mask
  clip (vadd i.xc (smul al dHat)) i.lb i.ub

end Lbfgsb
