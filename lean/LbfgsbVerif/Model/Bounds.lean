/-
  Executable model of `lbfgsb/base.py : get_bounds` (the input validation every run starts with):
  `x0` non-empty, as many bound pairs as variables, `None` entries replaced by `∓inf`
  (`scipy.optimize._constraints.old_bound_to_new`), no `lb > ub`, `x0` inside the box.
  Comparisons are the IEEE ones (`>` false on NaN), as in the source.
-/
import LbfgsbVerif.Model.Basic

namespace Lbfgsb
variable {α : Type} [LT α] [DecidableLT α]

/-- the four `ValueError`s of `get_bounds`, in the order they are tested -/
inductive BoundsErr | emptyX | lenMismatch | lbGtUb | x0Outside
  deriving DecidableEq, Repr

/-- `old_bound_to_new` -/
def oldBoundToNew (negInf posInf : α) (bounds : List (Option α × Option α)) : Vec α × Vec α :=
  (bounds.map fun b => b.1.getD negInf, bounds.map fun b => b.2.getD posInf)

/-- `(a > b).any()` on two arrays of the same length -/
def anyGt : Vec α → Vec α → Bool
  | a :: as, b :: bs => decide (b < a) || anyGt as bs
  | _, _ => false

/-- `bounds is None` means no bound at all -/
def boundsOrFree (x0 : Vec α) : Option (List (Option α × Option α)) → List (Option α × Option α)
  | none => x0.map fun _ => (none, none)
  | some b => b

def getBounds (negInf posInf : α) (x0 : Vec α) (bounds : Option (List (Option α × Option α))) :
    Except BoundsErr (Vec α × Vec α) :=
  if x0.length = 0 then .error .emptyX else
  let b := boundsOrFree x0 bounds
  if b.length ≠ x0.length then .error .lenMismatch else
  let lb := (oldBoundToNew negInf posInf b).1
  let ub := (oldBoundToNew negInf posInf b).2
  if anyGt lb ub then .error .lbGtUb else
  if anyGt lb x0 || anyGt x0 ub then .error .x0Outside else
  .ok (lb, ub)

end Lbfgsb
