/-
  Scalar-generic vector helpers used by every model.

  Everything here is written against *core* type classes only (no Mathlib), so that
  the same definition can be
    * executed at `Float` by the driver (bit-exact replay of the implementation),
    * reasoned about over an arbitrary linear order with *uninterpreted* arithmetic
      (level U: theorems that survive rounding),
    * reasoned about over an ordered field (level F).
-/
namespace Lbfgsb

abbrev Vec (α : Type) := List α

section order
variable {α : Type} [LT α] [DecidableLT α]

/-- IEEE `==` on non-NaN values: neither is smaller. (`-0.0 == 0.0` holds.) -/
def feq (a b : α) : Bool := !(decide (a < b)) && !(decide (b < a))

/-- `np.array_equal` for 1-D arrays: same length, element-wise `==`. -/
def veq : Vec α → Vec α → Bool
  | [], [] => true
  | a :: as, b :: bs => feq a b && veq as bs
  | _, _ => false

/-- `min(max(x, lo), hi)` as `np.clip` computes it (for `lo ≤ hi`, no NaN). -/
def clip1 (lo hi x : α) : α := if x < lo then lo else if hi < x then hi else x

/-- `np.clip(x, lb, ub)` / `clip2bounds`. Result has the length of `x`; missing bounds leave
the entry unchanged (never happens for well-formed inputs: `get_bounds` rejects them). -/
def clip : Vec α → Vec α → Vec α → Vec α
  | x :: xs, l :: ls, u :: us => clip1 l u x :: clip xs ls us
  | xs, _, _ => xs

def fmax (a b : α) : α := if a < b then b else a
def fmin (a b : α) : α := if b < a then b else a

/-- `lb ≤ p ≤ ub` component-wise (all three of the same length), stated with `¬ <`
so that it needs no `LE`. -/
def InBox : Vec α → Vec α → Vec α → Prop
  | [], [], [] => True
  | l :: ls, u :: us, p :: ps => (¬ p < l ∧ ¬ u < p) ∧ InBox ls us ps
  | _, _, _ => False

/-- well-formed box: same length, `lb ≤ ub`. -/
def BoxOk : Vec α → Vec α → Prop
  | [], [] => True
  | l :: ls, u :: us => ¬ u < l ∧ BoxOk ls us
  | _, _ => False

end order

section arith
variable {α : Type}

def vzip (f : α → α → α) : Vec α → Vec α → Vec α
  | a :: as, b :: bs => f a b :: vzip f as bs
  | _, _ => []

variable [Add α] [Sub α] [Mul α]

def vadd (x y : Vec α) : Vec α := vzip (· + ·) x y
def vsub (x y : Vec α) : Vec α := vzip (· - ·) x y
def smul (a : α) (x : Vec α) : Vec α := x.map (a * ·)
/-- `x * a` element-wise (NumPy `arr * scalar`; IEEE multiplication is commutative,
the model keeps the operand order of the source anyway). -/
def vscale (x : Vec α) (a : α) : Vec α := x.map (· * a)

/-- sequential dot product, left to right, starting from `0`. -/
def dot [OfNat α 0] (x y : Vec α) : α :=
  (vzip (· * ·) x y).foldl (· + ·) 0

/-- `np.diff(np.array(X), axis=0)`: consecutive differences of a list of vectors. -/
def diffs : List (Vec α) → List (Vec α)
  | a :: b :: rest => vsub b a :: diffs (b :: rest)
  | _ => []

end arith

section norms
variable {α : Type} [LT α] [DecidableLT α] [Sub α] [Neg α] [OfNat α 0]

def fabs (a : α) : α := if a < 0 then -a else a

/-- `np.max(np.abs(v))` (0 for the empty vector, which never occurs: `n ≥ 1`). -/
def maxAbs (v : Vec α) : α := v.foldl (fun acc a => fmax acc (fabs a)) 0

/-- `projgr`: infinity norm of the projected gradient `clip(x - g) - x`. -/
def projgr (x g lb ub : Vec α) : α := maxAbs (vsub (clip (vsub x g) lb ub) x)

end norms

end Lbfgsb
