/-
  Executable model of `lbfgsb/utils.py : get_gradient_projection_unit_scaling` — the packaged
  gradient scaler: `1 / ‖x − P(x − g)‖∞`, or `1` at a stationary start.
-/
import LbfgsbVerif.Model.Basic

namespace Lbfgsb
variable {α : Type} [Sub α] [Div α] [Neg α] [LT α] [DecidableLT α] [OfNat α 0] [OfNat α 1]

def unitScaling (x g lb ub : Vec α) : α :=
  let maxChange := maxAbs (vsub x (clip (vsub x g) lb ub))
  if feq maxChange 0 then 1 else 1 / maxChange

end Lbfgsb
