/-
  Executable model of the compact representation used by `lbfgsb/bfgsmats.py`
  (`update_lbfgs_matrices`, `form_invMfactors`, `bmv`) and of the independent dense BFGS
  recursion it is compared with.

      B = theta I − W M Wᵀ ,   W = [Y, theta S] ,   M⁻¹ = [[−D, Lᵀ], [L, theta SᵀS]]

  with `S = diffs X`, `Y = diffs G` (columns = pairs, oldest first), `D = diag(sᵢ·yᵢ)`,
  `L_ij = sᵢ·yⱼ (i > j)`, `theta = y·y / s·y` of the newest pair. The triangular factors of
  the source are replaced by one dense solve with `M⁻¹` (Gauss–Jordan with partial pivoting):
  mathematically the same product, numerically compared with a tolerance.
-/
import LbfgsbVerif.Model.Basic

namespace Lbfgsb
variable {α : Type} [Add α] [Sub α] [Mul α] [Div α] [Neg α] [LT α] [DecidableLT α]
  [OfNat α 0] [OfNat α 1]

/-- index of the pivot row of step `k`: the first row `i ∈ [k, n)` with the largest `|M[i][k]|` -/
def pivotIdx (M : List (Vec α)) (k n : Nat) : Nat :=
  (List.range' k (n - k)).foldl
    (fun piv i => if fabs ((M.getD piv []).getD k 0) < fabs ((M.getD i []).getD k 0) then i else piv) k

/-- exchange of two rows -/
def swapRows (M : List (Vec α)) (i j : Nat) : List (Vec α) :=
  (M.set i (M.getD j [])).set j (M.getD i [])

/-- the pivot of step `k` (after the row exchange) -/
def pivotOf (M : List (Vec α)) (k n : Nat) : α :=
  ((swapRows M k (pivotIdx M k n)).getD k []).getD k 0

/-- step `k` of the Gauss–Jordan elimination: bring the pivot row to position `k`, scale it to a unit
pivot, eliminate column `k` from every other row -/
def gjStep (M : List (Vec α)) (k n : Nat) : List (Vec α) :=
  let M1 := swapRows M k (pivotIdx M k n)
  let rk0 := M1.getD k []
  let p := rk0.getD k 0
  let rk := rk0.map (· / p)
  M1.mapIdx fun i row => if i = k then rk else (row.zip rk).map fun (a, r) => a - row.getD k 0 * r

/-- steps `k, k+1, …, k + fuel − 1` -/
def gjLoop (n : Nat) : Nat → Nat → List (Vec α) → List (Vec α)
  | 0, _, M => M
  | fuel + 1, k, M => gjLoop n fuel (k + 1) (gjStep M k n)

/-- the pivots met by these steps -/
def gjPivots (n : Nat) : Nat → Nat → List (Vec α) → List α
  | 0, _, _ => []
  | fuel + 1, k, M => pivotOf M k n :: gjPivots n fuel (k + 1) (gjStep M k n)

/-- the augmented matrix `[A | b]` -/
def augment (A : List (Vec α)) (b : Vec α) : List (Vec α) := (A.zip b).map fun (row, bi) => row ++ [bi]

/-- Gauss–Jordan elimination with partial pivoting on the augmented matrix `[A | b]`. -/
def gaussSolve (A : List (Vec α)) (b : Vec α) : Vec α :=
  let n := b.length
  (gjLoop n n 0 (augment A b)).map fun row => row.getD n 0

/-- the same elimination written with arrays and loops (kept for the comparison of the two, bit for bit, by the driver) -/
def gaussSolveImp (A : List (Vec α)) (b : Vec α) : Vec α := Id.run do
  let n := b.length
  let mut M : Array (Array α) := (A.zip b).toArray.map fun (row, bi) => (row ++ [bi]).toArray
  for k in [0:n] do
    let mut piv := k
    for i in [k:n] do
      if fabs (M[piv]!.getD k 0) < fabs (M[i]!.getD k 0) then piv := i
    let rk := M[k]!
    M := (M.set! k M[piv]!).set! piv rk
    let p := M[k]!.getD k 0
    M := M.set! k (M[k]!.map (· / p))
    for i in [0:n] do
      if i ≠ k then
        let f := M[i]!.getD k 0
        let rowk := M[k]!
        M := M.set! i ((M[i]!.zip rowk).map fun (a, r) => a - f * r)
  return (M.toList.map fun row => row.getD n 0)

/-- `theta = y·y / s·y` of the newest pair (1 when there is none) -/
def thetaOf (X G : List (Vec α)) : α :=
  match (diffs X).getLast?, (diffs G).getLast? with
  | some s, some y => dot y y / dot s y
  | _, _ => 1

/-- `B v` through the compact representation -/
def compactBv (X G : List (Vec α)) (v : Vec α) : Vec α :=
  let S := diffs X
  let Y := diffs G
  let m := S.length
  if m = 0 then v else
  let th := thetaOf X G
  let wtv : Vec α := Y.map (dot · v) ++ S.map (fun s => th * dot s v)
  -- rows of M⁻¹
  let idx := List.range m
  let top : List (Vec α) := idx.map fun i =>
    (idx.map fun j => if i = j then -(dot (S.getD i []) (Y.getD i [])) else 0) ++
    (idx.map fun j => if j > i then dot (S.getD j []) (Y.getD i []) else 0)
  let bot : List (Vec α) := idx.map fun i =>
    (idx.map fun j => if i > j then dot (S.getD i []) (Y.getD j []) else 0) ++
    (idx.map fun j => th * dot (S.getD i []) (S.getD j []))
  let p := gaussSolve (top ++ bot) wtv
  let p1 := p.take m
  let p2 := p.drop m
  -- theta v − Σ p1ᵢ Yᵢ − Σ p2ᵢ theta Sᵢ
  let acc := (Y.zip p1).foldl (fun acc (y, c) => vsub acc (smul c y)) (smul th v)
  (S.zip p2).foldl (fun acc (s, c) => vsub acc (smul (c * th) s)) acc

/-- one dense BFGS update `B − (Bs)(Bs)ᵀ/(sᵀBs) + y yᵀ/(sᵀy)` on a row-list matrix -/
def bfgsDenseStep (B : List (Vec α)) (s y : Vec α) : List (Vec α) :=
  let Bs := B.map (dot · s)
  let sBs := dot s Bs
  let sy := dot s y
  (B.zip (Bs.zip y)).map fun (row, (bi, yi)) =>
    (row.zip (Bs.zip y)).map fun (bij, (bj, yj)) => bij - bi * bj / sBs + yi * yj / sy

/-- the dense matrix obtained by applying the stored pairs in order to `theta I` -/
def denseBfgs (X G : List (Vec α)) (n : Nat) : List (Vec α) :=
  let th := thetaOf X G
  let I : List (Vec α) := (List.range n).map fun i => (List.range n).map fun j => if i = j then th else 0
  ((diffs X).zip (diffs G)).foldl (fun B (s, y) => bfgsDenseStep B s y) I

end Lbfgsb
