/-
  Model of the driver `minimize_lbfgsb` (lbfgsb/main.py) and of the line-search wrapper
  `line_search` / `max_allowed_steplength` (lbfgsb/linesearch.py, SciPy >= 1.12 branch).

  * the user's callables are arbitrary `Except`-valued functions (`User`);
  * the numerical kernels seen from the driver are oracles (`Oracles`): the search point
    `xbar` (Cauchy point + subspace minimisation) as a function of `(x, g, memory)`, and the
    DCSRCH stepper of SciPy as a state machine over an abstract state;
  * everything else — clipping, the memoising wrapper, the memory deques, budgets, stop
    tests, messages, the callback state, checkpoint restore — is computed by the model
    itself, from the same formulas as the source, so that at `Float` it can be replayed
    bit for bit against a recorded run.

  Values are immutable: value semantics *is* the specification of "no aliasing".
-/
import LbfgsbVerif.Model.Basic
import LbfgsbVerif.Model.SF
import LbfgsbVerif.Model.Memory

namespace Lbfgsb

/-- operations of the scalar type that are not core classes -/
class FloatLike (α : Type) where
  sqrt : α → α
  isFinite : α → Bool

/-- termination messages (`istate.task_str`) -/
inductive Msg
  | start            -- "START" (placeholder)
  | restartLnsrch    -- "RESTART_FROM_LNSRCH" (placeholder)
  | abnormal         -- "ABNORMAL_TERMINATION_IN_LNSRCH"
  | pgtol            -- "CONVERGENCE: NORM_OF_PROJECTED_GRADIENT_<=_PGTOL"
  | ftol             -- "CONVERGENCE: REL_REDUCTION_OF_F_<=_FTOL"
  | target           -- "CONVERGENCE: F_<=_TARGET"
  | iterLimit        -- "STOP: TOTAL NO. of ITERATIONS REACHED LIMIT"
  | evalLimit        -- "STOP: TOTAL NO. of f AND g EVALUATIONS EXCEEDS LIMIT"
  | userCallback     -- "STOP: USER CALLBACK"
  deriving DecidableEq, Repr, Inhabited

/-- the documented termination reasons -/
def Msg.documented : Msg → Bool
  | .start | .restartLnsrch => false
  | _ => true

/-- DCSRCH task classes (`task[:2] == b"FG"`, `task[:4] == b"CONV"` / `b"WARN"`, else) -/
inductive Task | start | fg | conv | warn | error
  deriving DecidableEq, Repr, Inhabited

/-- a threshold that may be given as a number or as a callable evaluated once -/
inductive Thresh (α : Type)
  | const (a : α)
  | callable

/-- what a result / checkpoint / callback state carries -/
structure Result (α : Type) where
  x : Vec α
  f : α
  jac : Vec α
  nfev : Nat
  njev : Nat
  nit : Nat
  status : Nat
  msg : Msg
  success : Bool
  sk : List (Vec α)
  yk : List (Vec α)

structure UpdIn (α : Type) where
  x : Vec α
  f0 : α
  f0Old : α
  grad : Vec α
  X : List (Vec α)
  G : List (Vec α)

structure UpdOut (α : Type) where
  f0 : α
  f0Old : α
  grad : Vec α
  G : List (Vec α)

structure Cfg (α : Type) where
  x0 : Vec α
  lb : Vec α
  ub : Vec α
  mode : GradMode
  maxcor : Nat
  maxiter : Nat
  maxfun : Nat
  maxls : Nat
  ftol : α
  gtol : Thresh α
  ftarget : Option (Thresh α)
  maxStep : α
  ftolLS : α
  gtolLS : α
  xtolLS : α
  epsSY : α
  hasCallback : Bool
  hasUpdate : Bool
  hasScaler : Bool
  checkpoint : Option (Result α)

/-- the user's callables (objective, gradient and differencing oracle in `sf`). -/
structure User (α ε : Type) extends SFUser α ε where
  callback : Result α → Except ε Bool
  update : UpdIn α → Except ε (UpdOut α)
  scaler : Vec α → Vec α → Except ε α
  ftargetFn : Unit → Except ε α
  gtolFn : Unit → Except ε α

/-- the numerical kernels as seen from the driver -/
structure Oracles (α δ : Type) where
  /-- `subspace_minimization ∘ get_cauchy_point`: depends on the point, the gradient, the box
  and the matrices (a function of the memory snapshot) only -/
  xbar : Vec α → Vec α → Mats α → Vec α
  /-- `DCSRCH(phi, dphi, ftol, gtol, xtol, 0, stpmax)`; `phi`, `dphi` are closures over the
  start point and the direction -/
  dcNew : (x0 d : Vec α) → (ftol gtol xtol stpmax : α) → δ
  /-- `DCSRCH._iterate(stp, f, g, task)` → new state, `stp`, task class -/
  dcIter : δ → α → α → α → Task → δ × α × Task

/-- oracle requests, kept for the correspondence check -/
inductive OReq (α : Type)
  | xbar (x g : Vec α) (mats : Mats α)
  | dc (stp f g : α) (task : Task)

/-- the driver's state (`x, f0, grad, X, G, mats, sf, istate`) plus observation logs -/
structure St (α : Type) where
  x : Vec α
  f : α
  g : Vec α
  X : List (Vec α)
  G : List (Vec α)
  mats : Mats α
  sf : SF α
  nit : Nat
  task : Msg
  success : Bool
  warnflag : Nat
  /-- `_ftarget`, `_gtol` after the one-shot evaluation -/
  ftarget : Option α
  gtol : α
  /-- states handed to the callback, in order -/
  cbStates : List (Result α)
  olog : List (OReq α)

variable {α ε δ : Type}

section defs
variable [Add α] [Sub α] [Mul α] [Div α] [Neg α] [LT α] [DecidableLT α]
  [OfNat α 0] [OfNat α 1] [FloatLike α]

/-- `is_any_inf([lb, ub])` negated -/
def isBoxed (lb ub : Vec α) : Bool :=
  lb.all FloatLike.isFinite && ub.all FloatLike.isFinite

/-- `max_allowed_steplength` (linesearch.py:38-92) -/
def maxAllowedStep (x d lb ub : Vec α) (maxStep : α) (nit : Nat) : α :=
  if nit = 0 then 1 else
  let rec cand : Vec α → Vec α → Vec α → Vec α → List α
    | xi :: xs, di :: ds, li :: ls, ui :: us =>
      let rest := cand xs ds ls us
      if feq di 0 then rest else
      let t := if 0 < di then (ui - xi) / di else (li - xi) / di
      if FloatLike.isFinite t then t :: rest else rest
    | _, _, _, _ => []
  match cand x d lb ub with
  | [] => maxStep
  | t :: ts => fmin maxStep (ts.foldl fmin t)

/-- `is_f0_target_reached` (main.py:767-782) -/
def targetReached (f : α) : Option α → Bool
  | none => false
  | some t => !(decide (t < f))

/-- `is_f0_min_change_reached` (main.py:751-764) -/
def minChange (f0 f0Old ftol : α) : Bool :=
  decide ((f0Old - f0) / fmax (fmax (fabs f0Old) (fabs f0)) 1 < ftol)

def St.result (s : St α) : Result α :=
  { x := s.x, f := s.f, jac := s.g, nfev := s.sf.nfev, njev := s.sf.ngev, nit := s.nit,
    status := s.warnflag, msg := s.task, success := s.success,
    sk := diffs s.X, yk := diffs s.G }

def St.logCall (s : St α) (k : CallKind) (arg : Vec α) : St α :=
  { s with sf := { s.sf with log := s.sf.log ++ [Call.mk k arg] } }

/-- state of the line-search loop (linesearch.py:251-305) -/
structure LS (α δ : Type) where
  sf : SF α
  dc : δ
  stp0 : α
  fm1 : α
  dphim1 : α
  task : Task
  /-- last step returned by the stepper -/
  stp : α
  fBest : α
  best : Option α
  olog : List (OReq α)

/-- the trial point of the line search for the step `stp` — also the new iterate when the
step is accepted: `clip2bounds(x0 + stp * d, lb, ub)` -/
def trial (x0 d lb ub : Vec α) (stp : α) : Vec α := clip (vadd x0 (smul stp d)) lb ub

/-- one pass of the `while _iter < max_iter` loop (linesearch.py:268-302): ask the stepper,
and on `FG` evaluate the objective and gradient at the trial point and update the best
trial. Returns the new loop state and whether the loop continues. -/
def lsStep (u : User α ε) (o : Oracles α δ) (x0 d lb ub : Vec α) (l : LS α δ) :
    Except ε (LS α δ × Bool) :=
  let r := o.dcIter l.dc l.stp0 l.fm1 l.dphim1 l.task
  let l1 : LS α δ := { l with dc := r.1, stp := r.2.1, task := r.2.2,
                              olog := l.olog ++ [OReq.dc l.stp0 l.fm1 l.dphim1 l.task] }
  if r.2.2 = .fg then do
    let e ← l1.sf.funAndGrad u.toSFUser (trial x0 d lb ub r.2.1)
    let l2 : LS α δ := { l1 with sf := e.1, stp0 := r.2.1, fm1 := e.2.1, dphim1 := dot e.2.2 d }
    pure (if e.2.1 < l2.fBest then { l2 with fBest := e.2.1, best := some r.2.1 } else l2, true)
  else pure (l1, false)

/-- the `while _iter < max_iter` loop; `fuel = max_iter - _iter`.
Returns the final loop state and whether the loop ran out of iterations (the `else`
branch of the `while`). -/
def lsLoop (u : User α ε) (o : Oracles α δ) (x0 d lb ub : Vec α) :
    Nat → LS α δ → Except ε (LS α δ × Bool)
  | 0, l => pure (l, true)
  | fuel + 1, l => do
    let r ← lsStep u o x0 d lb ub l
    if r.2 then lsLoop u o x0 d lb ub fuel r.1 else pure (r.1, false)

/-- `line_search` (linesearch.py:95-325) -/
def lineSearch (u : User α ε) (o : Oracles α δ) (c : Cfg α) (x0 : Vec α) (f0 : α)
    (g0 d : Vec α) (nit : Nat) (sf : SF α) (maxIter : Nat) (olog : List (OReq α)) :
    Except ε (SF α × Option α × List (OReq α)) := do
  let maxStep := maxAllowedStep x0 d c.lb c.ub c.maxStep nit
  let dphi0 := dot g0 d
  let stp0 : α :=
    if nit = 0 ∧ !(isBoxed c.lb c.ub) then fmin (1 / FloatLike.sqrt (dot d d)) maxStep else 1
  let l0 : LS α δ :=
    { sf := sf, dc := o.dcNew x0 d c.ftolLS c.gtolLS c.xtolLS maxStep, stp0 := stp0, fm1 := f0,
      dphim1 := dphi0, task := .start, stp := stp0, fBest := f0, best := none, olog := olog }
  let (l, exhausted) ← lsLoop u o x0 d c.lb c.ub maxIter l0
  let task := if exhausted then Task.warn else l.task
  if !(FloatLike.isFinite l.stp) || feq l.stp 0 then pure (l.sf, none, l.olog)
  else if task ≠ .conv ∧ task ≠ .warn then pure (l.sf, none, l.olog)
  else pure (l.sf, l.best, l.olog)

/-- how one pass of the main loop ends -/
inductive Flow | next | brk
  deriving DecidableEq

/-- the stop tests after a successful step (main.py:577-595, same order in both branches) -/
def stopTests (c : Cfg α) (s : St α) (f0Old : α) : St α × Bool :=
  if targetReached (s.f / s.sf.scale) s.ftarget then
    ({ s with task := .target, success := true, warnflag := 0 }, true)
  else if minChange s.f f0Old c.ftol then
    ({ s with task := .ftol, success := true, warnflag := 0 }, true)
  else (s, false)

/-- a failed line search (main.py:555-568): abort if the memory is already empty, otherwise
reset it and go on -/
def iterFail (s : St α) : St α × Flow :=
  if s.X.length = 1 then
    ({ s with task := .abnormal, warnflag := 2, success := false }, .brk)
  else
    ({ s with task := .restartLnsrch, X := [lastD s.X], G := [lastD s.G], mats := none,
              nit := s.nit + 1 }, .next)

/-- stop tests, preceded by the user's redefinition of the objective when there is one
(main.py:577-598). Returns the state and whether to leave the loop. -/
def afterEval (u : User α ε) (c : Cfg α) (s : St α) (f0Old : α) : Except ε (St α × Bool) :=
  if c.hasUpdate then do
    let s := s.logCall .update s.x
    let r ← u.update { x := s.x, f0 := s.f, f0Old := f0Old, grad := s.g, X := s.X, G := s.G }
    let fl := filterWolfe s.X r.G c.epsSY
    let s := { s with f := r.f0, g := r.grad, X := fl.1, G := fl.2 }
    pure (stopTests c s r.f0Old)
  else
    pure (stopTests c s f0Old)

/-- the user callback (main.py:616-636) -/
def doCallback (u : User α ε) (c : Cfg α) (s : St α) : Except ε (St α) :=
  if c.hasCallback ∧ !s.success then do
    let cb := { s.result with nit := s.nit + 1 }
    let s := { (s.logCall .callback s.x) with cbStates := s.cbStates ++ [cb] }
    let stopNow ← u.callback cb
    pure (if stopNow then { s with task := .userCallback, success := true } else s)
  else pure s

/-- the memory update after an accepted step (main.py:609-624): the deques via `updateMats`;
the matrices snapshot is rebuilt when the pair is accepted and — with an update function,
whose rewrite of the stored gradients must not be lost — also when it is rejected (from the
filtered history, or back to "no pair" when none is left). -/
def memStep (c : Cfg α) (s : St α) : St α :=
  let m := updateMats s.x s.g s.X s.G c.maxcor s.mats c.epsSY
  let mats : Mats α :=
    if m.2.2.2 then m.2.2.1
    else if c.hasUpdate then (if s.X.length > 1 then some (s.X, s.G) else none)
    else s.mats
  { s with X := m.1, G := m.2.1, mats := mats }

/-- an accepted step (main.py:570-645) -/
def iterStep (u : User α ε) (c : Cfg α) (s : St α) (d : Vec α) (stp f0Old : α) :
    Except ε (St α × Flow) := do
  let x := trial s.x d c.lb c.ub stp
  let e ← s.sf.funAndGrad u.toSFUser x
  let s := { s with x := x, f := e.2.1, g := e.2.2, sf := e.1 }
  let (s, stop) ← afterEval u c s f0Old
  if stop then pure (s, .brk) else
  let s ← doCallback u c (memStep c s)
  pure ({ s with nit := s.nit + 1 }, .next)

/-- one pass of the `while` loop body (main.py:498-645) -/
def iterBody (u : User α ε) (o : Oracles α δ) (c : Cfg α) (s : St α) : Except ε (St α × Flow) := do
  let f0Old := s.f
  let xbar := o.xbar s.x s.g s.mats
  let s := { s with olog := s.olog ++ [OReq.xbar s.x s.g s.mats] }
  let d := vsub xbar s.x
  let (sf, stp?, olog) ← lineSearch u o c s.x s.f s.g d s.nit s.sf
    (min c.maxls (c.maxfun - s.sf.nfev)) s.olog
  let s := { s with sf := sf, olog := olog }
  match stp? with
  | none => pure (iterFail s)
  | some stp => iterStep u c s d stp f0Old

/-- the loop guard (main.py:492-497) -/
def guard (c : Cfg α) (s : St α) : Bool :=
  decide (s.gtol < projgr s.x s.g c.lb c.ub) && decide (s.nit < c.maxiter) &&
    decide (s.sf.nfev < c.maxfun) && !s.success

/-- the `while` loop. Every pass that does not `break` increases `nit`, and the guard
requires `nit < maxiter`, so `fuel = maxiter - nit` is exact. -/
def mainLoop (u : User α ε) (o : Oracles α δ) (c : Cfg α) : Nat → St α → Except ε (St α)
  | 0, s => pure s
  | fuel + 1, s =>
    if guard c s then do
      let (s, flow) ← iterBody u o c s
      match flow with
      | .brk => pure s
      | .next => mainLoop u o c fuel s
    else pure s

/-- final classification (main.py:653-664) -/
def classify (c : Cfg α) (s : St α) : St α :=
  if !(decide (s.gtol < projgr s.x s.g c.lb c.ub)) then
    { s with task := .pgtol, success := true, warnflag := 1 }
  else if s.nit ≥ c.maxiter then
    { s with task := .iterLimit, success := true, warnflag := 1 }
  else if s.sf.nfev ≥ c.maxfun then
    { s with task := .evalLimit, success := true, warnflag := 1 }
  else s

/-- one-shot evaluation of a threshold -/
def evalThresh (fn : Unit → Except ε α) (k : CallKind) (sf : SF α) :
    Thresh α → Except ε (SF α × α)
  | .const a => pure (sf, a)
  | .callable => do
    let sf := { sf with log := sf.log ++ [Call.mk k []] }
    let a ← fn ()
    pure (sf, a)

/-- what is known after the first objective evaluation and the one-shot evaluation of the
thresholds (main.py:355-407) -/
structure Init (α : Type) where
  x : Vec α
  X : List (Vec α)
  G : List (Vec α)
  sf : SF α
  f0 : α
  ftarget : Option α
  gtol : α
  nit : Nat

/-- main.py:355-387: the wrapper, with the checkpoint's counters on a restart, and the first
objective value (evaluated, or taken from the checkpoint). -/
def firstEval (u : User α ε) (c : Cfg α) : Except ε (SF α × α) :=
  let x := clip c.x0 c.lb c.ub
  let sf0 : SF α := SF.new c.mode x c.lb c.ub
  match c.checkpoint with
  | none => sf0.funv u.toSFUser x
  | some ck => pure ({ sf0 with nfev := ck.nfev, ngev := ck.njev }, ck.f)

/-- main.py:389-396: one-shot evaluation of `ftarget` -/
def evalFtarget (u : User α ε) (c : Cfg α) (sf : SF α) : Except ε (SF α × Option α) :=
  match c.ftarget with
  | none => pure (sf, none)
  | some th => do let r ← evalThresh u.ftargetFn .ftarget sf th; pure (r.1, some r.2)

/-- main.py:355-407: clip the start, restore the memory and the counters from the checkpoint,
evaluate the objective (unless restarted) and the callable thresholds. -/
def initEval (u : User α ε) (c : Cfg α) : Except ε (Init α) := do
  let x := clip c.x0 c.lb c.ub
  let XG : List (Vec α) × List (Vec α) := match c.checkpoint with
    | none => ([], [])
    | some ck => restoreXG x ck.jac ck.sk ck.yk c.maxcor
  let e ← firstEval u c
  let t ← evalFtarget u c e.1
  let gt ← evalThresh u.gtolFn .gtol t.1 c.gtol
  let nit := match c.checkpoint with | none => 0 | some ck => ck.nit
  pure { x := x, X := XG.1, G := XG.2, sf := gt.1, f0 := e.2, ftarget := t.2, gtol := gt.2, nit := nit }

def Init.state (i : Init α) : St α :=
  { x := i.x, f := i.f0, g := [], X := i.X, G := i.G, mats := none, sf := i.sf, nit := i.nit,
    task := .start, success := false, warnflag := 2, ftarget := i.ftarget, gtol := i.gtol,
    cbStates := [], olog := [] }

/-- the result when the start already satisfies the target (main.py:412-433) -/
def earlyResult (c : Cfg α) (i : Init α) : Result α × St α :=
  let s := { i.state with task := .target, success := true, warnflag := 0 }
  match c.checkpoint with
  | some ck => ({ ck with msg := .target, success := true, status := 0 }, s)
  | none =>
    let s := { s with X := [i.x], G := [i.x.map fun _ => 0], g := i.x.map fun _ => 0 }
    (s.result, s)

/-- main.py:435-439: the first gradient (computed, or taken from the checkpoint) -/
def firstGrad (u : User α ε) (c : Cfg α) (i : Init α) : Except ε (SF α × Vec α) :=
  match c.checkpoint with
  | none => i.sf.gradv u.toSFUser i.x
  | some ck => pure (i.sf, ck.jac)

/-- main.py:441-452: the gradient scaler sets the scaling factor of the wrapper -/
def applyScaler (u : User α ε) (c : Cfg α) (s : St α) (grad : Vec α) : Except ε (St α) :=
  if c.hasScaler then do
    let s := s.logCall .scaler s.x
    let sc ← u.scaler s.x grad
    pure { s with sf := { s.sf with scale := sc } }
  else pure s

/-- main.py:456-459: initial invocation of the update function -/
def applyUpdate0 (u : User α ε) (c : Cfg α) (s : St α) : Except ε (St α) :=
  if c.hasUpdate then do
    let s := s.logCall .update s.x
    let r ← u.update { x := s.x, f0 := s.f, f0Old := s.f, grad := s.g, X := s.X, G := s.G }
    let fl := if s.X.length > 0 then filterWolfe s.X r.G c.epsSY else (s.X, r.G)
    pure { s with f := r.f0, g := r.grad, X := fl.1, G := fl.2 }
  else pure s

/-- main.py:461-477: initial memory -/
def initMemory (c : Cfg α) (s : St α) : St α :=
  if s.X.length > 0 then
    let m := updateMats s.x s.g s.X s.G c.maxcor s.mats c.epsSY
    { s with X := m.1, G := m.2.1, mats := m.2.2.1 }
  else { s with X := [s.x], G := [s.g] }

/-- main.py:435-488: first gradient, scaler, scaling, initial update of the objective
definition, initial memory. -/
def prepare (u : User α ε) (c : Cfg α) (i : Init α) : Except ε (St α) := do
  let e ← firstGrad u c i
  let s ← applyScaler u c { i.state with sf := e.1 } e.2
  let s := { s with f := i.f0 * s.sf.scale, g := vscale e.2 s.sf.scale }
  let s ← applyUpdate0 u c s
  pure (initMemory c s)

/-- `minimize_lbfgsb` (main.py:347-681). Inputs are assumed to have passed `get_bounds` and
the checkpoint consistency checks (`x0` in the box, `lb ≤ ub`, `x0 = checkpoint.x`). -/
def minimize (u : User α ε) (o : Oracles α δ) (c : Cfg α) : Except ε (Result α × St α) := do
  let i ← initEval u c
  if targetReached (i.f0 / i.sf.scale) i.ftarget then pure (earlyResult c i)
  else do
    let s0 ← prepare u c i
    let s1 ← mainLoop u o c (c.maxiter - s0.nit) s0
    let s2 := classify c s1
    pure (s2.result, s2)

end defs
end Lbfgsb
