/-
  Model of the curvature memory: the deques `X`, `G` of `lbfgsb/main.py` and their
  maintenance in `lbfgsb/bfgsmats.py`.

    is_update_X_and_G                    344-385   `curvOk`
    update_X_and_G                       300-341   `pushXG`
    update_lbfgs_matrices (bookkeeping)  179-297   `updateMats`  (is_force_update = False)
    make_X_and_G_respect_strong_wolfe    388-429   `filterWolfe`
    initialize_X_and_G (main.py)         684-748   `restoreXG`

  The compact matrices themselves are a function of the deque contents at the moment of the
  last accepted update; the model keeps that snapshot (`Mats`).
-/
import LbfgsbVerif.Model.Basic

namespace Lbfgsb
variable {α : Type}

/-- what `LBFGSB_MATRICES` was last built from: `none` = freshly constructed (no pair),
`some (X, G)` = the deques at the last accepted update (S = diffs X, Y = diffs G,
theta from the newest pair). -/
abbrev Mats (α : Type) := Option (List (Vec α) × List (Vec α))

section
variable [Add α] [Sub α] [Mul α] [LT α] [DecidableLT α] [OfNat α 0]

/-- `is_update_X_and_G`: `s·y > eps * y·y` with `y = gk - g_old`, `s = xk - x_old`. -/
def curvOk (xk gk xOld gOld : Vec α) (eps : α) : Bool :=
  let yk := vsub gk gOld
  let sTy := dot (vsub xk xOld) yk
  let yTy := dot yk yk
  decide (eps * yTy < sTy)

/-- last element with a default (the deques are never empty where this is used) -/
def lastD (l : List (Vec α)) : Vec α := l.getLastD []

/-- `update_X_and_G` followed by the snapshot `update_lbfgs_matrices` takes when the pair is
accepted. Returns the new deques, the new matrices snapshot and whether the pair was
accepted. A rejected pair leaves all three untouched. -/
def updateMats (xk gk : Vec α) (X G : List (Vec α)) (maxcor : Nat) (mats : Mats α) (eps : α) :
    List (Vec α) × List (Vec α) × Mats α × Bool :=
  if curvOk xk gk (lastD X) (lastD G) eps then
    let X' := X ++ [xk]
    let G' := G ++ [gk]
    let (X', G') := if X'.length > maxcor + 1 then (X'.drop 1, G'.drop 1) else (X', G')
    (X', G', some (X', G'), true)
  else (X, G, mats, false)

/-- the backward walk of `make_X_and_G_respect_strong_wolfe` over the older points (given in
chronological order): a point is kept iff it passes the curvature test against the oldest
point kept so far (the head of the accumulator). -/
def filterGo (eps : α) : List (Vec α) → List (Vec α) → List (Vec α) × List (Vec α) →
    List (Vec α) × List (Vec α)
  | x :: xs, g :: gs, acc =>
    let r := filterGo eps xs gs acc
    if curvOk x g (r.1.headD []) (r.2.headD []) eps then (x :: r.1, g :: r.2) else r
  | _, _, acc => acc

/-- `make_X_and_G_respect_strong_wolfe`: walk from the newest point to the oldest, keep a
point iff it passes the curvature test against the oldest point kept so far. The newest
point is always kept. -/
def filterWolfe (X G : List (Vec α)) (eps : α) : List (Vec α) × List (Vec α) :=
  match X.reverse, G.reverse with
  | xl :: xs, gl :: gs => filterGo eps xs.reverse gs.reverse ([xl], [gl])
  | _, _ => (X, G)

/-- reversed cumulative sums as `np.cumsum(a[::-1], axis=0)[::-1]` computes them:
`c[m-1] = a[m-1]`, `c[k] = c[k+1] + a[k]`. -/
def revCumsum : List (Vec α) → List (Vec α)
  | [] => []
  | a :: rest =>
    match revCumsum rest with
    | [] => [a]
    | c :: cs => vadd c a :: c :: cs

/-- the loop of `initialize_X_and_G`: append, dropping from the left when more than `maxcor`
entries are already there (so at most `maxcor + 1` are kept; the current point is added
later by `updateMats`). -/
def pushBounded (maxcor : Nat) : List (Vec α) → List (Vec α) → List (Vec α)
  | acc, [] => acc
  | acc, p :: ps => pushBounded maxcor ((if acc.length > maxcor then acc.drop 1 else acc) ++ [p]) ps

/-- `initialize_X_and_G` for a checkpoint `(x, jac, sk, yk)`: past points in chronological
order, `X[i] = x - Σ_{j ≥ i} sk[j]`. -/
def restoreXG (x jac : Vec α) (sk yk : List (Vec α)) (maxcor : Nat) :
    List (Vec α) × List (Vec α) :=
  if sk.isEmpty then ([], []) else
  (pushBounded maxcor [] ((revCumsum sk).map (vsub x ·)),
   pushBounded maxcor [] ((revCumsum yk).map (vsub jac ·)))

end
end Lbfgsb
