/-
  Executable model of `lbfgsb/cauchy.py : get_cauchy_point` (generalized Cauchy point of
  Byrd–Lu–Nocedal, section 4), written against the same quantities as the source:
  breakpoints `t`, direction `d`, `p = Wᵀd`, `c = Wᵀ(x_cp − x)`, `f'`, `f''`, `Δt_min`.
  The product with the middle matrix (`bmv` through the triangular factors in the source) is one
  dense solve with `M⁻¹`. Infinite breakpoints are `none`.
-/
import LbfgsbVerif.Model.Basic
import LbfgsbVerif.Model.Compact

namespace Lbfgsb
variable {α : Type} [Add α] [Sub α] [Mul α] [Div α] [Neg α] [LT α] [DecidableLT α]
  [OfNat α 0] [OfNat α 1]

structure CauchyIn (α : Type) where
  x : Vec α
  g : Vec α
  lb : Vec α
  ub : Vec α
  theta : α
  /-- rows of `W` (one per variable, `2m` entries each) -/
  W : List (Vec α)
  /-- the inverse middle matrix `M⁻¹` (`2m × 2m`) -/
  Minv : List (Vec α)
  useFactor : Bool
  /-- the floor factor `eps_f_sec = 1e-30` of the source -/
  epsFsec : α

/-- breakpoints: `none` = +∞ (zero gradient component) -/
def breakpoints (x g lb ub : Vec α) : List (Option α) :=
  match x, g, lb, ub with
  | xi :: xs, gi :: gs, li :: ls, ui :: us =>
    (if feq gi 0 then none else if gi < 0 then some ((xi - ui) / gi) else some ((xi - li) / gi))
      :: breakpoints xs gs ls us
  | _, _, _, _ => []

/-- `t_a ≤ t_b` on breakpoints, `none` = +∞ -/
def bpLe : Option α → Option α → Bool
  | _, none => true
  | none, some _ => false
  | some a, some b => !(decide (b < a))

/-- is the breakpoint strictly positive (`none` = +∞ is) -/
def bpPos : Option α → Bool
  | none => true
  | some v => decide (0 < v)

/-- indices with `t > 0`, ordered by increasing `t` (`np.argsort(t)` filtered by `t > 0`; the
order of equal breakpoints is immaterial) -/
def bpOrder (t : List (Option α)) : List Nat :=
  ((List.range t.length).filter fun i => bpPos (t.getD i none)).mergeSort
    fun i j => bpLe (t.getD i none) (t.getD j none)

structure CauchySt (α : Type) where
  xcp : Vec α
  d : Vec α
  p : Vec α
  c : Vec α
  f1 : α
  f2 : α
  dtm : α
  tOld : α
  found : Bool

/-- transposed product `Wᵀ v` -/
def wtv (W : List (Vec α)) (v : Vec α) (k : Nat) : Vec α :=
  (List.range k).map fun j => dot (W.map fun row => row.getD j 0) v

/-- product with the middle matrix `M` (zero when the memory is empty) -/
def CauchyIn.mv (i : CauchyIn α) (v : Vec α) : Vec α :=
  if i.useFactor then gaussSolve i.Minv v else v.map fun _ => 0

/-- initial direction: `-g`, zero where the breakpoint is zero (variable on a bound with the
gradient pointing outward) -/
def cauchyD0 (t : List (Option α)) (g : Vec α) : Vec α :=
  match t, g with
  | ti :: ts, gi :: gs =>
    (match ti with
      | some v => if feq v 0 then 0 else -gi
      | none => -gi) :: cauchyD0 ts gs
  | _, _ => []

/-- one pass of the breakpoint loop (cauchy.py:221-278) for the breakpoint index `ib` -/
def cauchyStep (i : CauchyIn α) (t : List (Option α)) (f2org : α) (s : CauchySt α) (ib : Nat) :
    CauchySt α :=
  if s.found then s else
  match t.getD ib none with
  | none => { s with found := true }
  | some tcur =>
    let dt := tcur - s.tOld
    -- (a zero-length segment — tied breakpoints — cannot contain the minimiser: `f'` then still
    -- counts the motion of variables that reach their bound at this very `t`)
    if s.dtm < dt ∧ 0 < dt then { s with found := true } else
    let db := s.d.getD ib 0
    let xb := if 0 < db then i.ub.getD ib 0 else if db < 0 then i.lb.getD ib 0 else s.xcp.getD ib 0
    let xcp := s.xcp.set ib xb
    let zb := xb - i.x.getD ib 0
    let c := vadd s.c (smul dt s.p)
    let wb := i.W.getD ib []
    let gb := i.g.getD ib 0
    let f1 := s.f1 + dt * s.f2 + gb * (gb + i.theta * zb)
    let f2 := s.f2 - gb * gb * i.theta
    let f1 := if i.useFactor then f1 - gb * dot wb (i.mv c) else f1
    let f2 := if i.useFactor then f2 - gb * dot wb (i.mv (vadd (smul (1 + 1) s.p) (smul gb wb))) else f2
    let f2 := fmax f2 (i.epsFsec * f2org)
    let p := vadd s.p (smul gb wb)
    let d := s.d.set ib 0
    { s with xcp := xcp, d := d, p := p, c := c, f1 := f1, f2 := f2, dtm := -f1 / f2, tOld := tcur }

def cauchy (i : CauchyIn α) : Vec α × Vec α :=
  let k := match i.W with | r :: _ => r.length | [] => 0
  let t := breakpoints i.x i.g i.lb i.ub
  let d0 := cauchyD0 t i.g
  let order := bpOrder t
  let p0 := wtv i.W d0 k
  let c0 : Vec α := p0.map fun _ => 0
  let f1 := -(dot d0 d0)
  let f2org := -(i.theta * f1)
  let f2 := if i.useFactor then f2org - dot p0 (i.mv p0) else f2org
  let s0 : CauchySt α :=
    { xcp := i.x, d := d0, p := p0, c := c0, f1 := f1, f2 := f2, dtm := -f1 / f2, tOld := 0,
      found := false }
  if order.isEmpty then (i.x, c0) else
  let s := order.foldl (cauchyStep i t f2org) s0
  let dtm := if s.dtm < 0 then 0 else s.dtm
  -- once every moving variable is fixed (`d = 0`) there is no final step
  let dtm := if s.d.all (fun a => feq a 0) then 0 else dtm
  let tOld := s.tOld + dtm
  (clip (vadd s.xcp (smul tOld s.d)) i.lb i.ub, vadd s.c (smul dtm s.p))

end Lbfgsb
