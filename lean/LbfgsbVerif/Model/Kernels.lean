/-
  The kernels as the driver uses them, composed: from the memory snapshot `mats` the compact matrices
  (`bfgsmats.py : update_lbfgs_matrices` — `theta`, `W = [Y, theta S]`, `M⁻¹ = [[−D, Lᵀ], [L, theta SᵀS]]`),
  then `get_cauchy_point`, then `subspace_minimization`: the function the driver model calls `xbar`.
  With the model of the stepper this gives `concreteOracles`: a complete executable model of the
  optimiser with no oracle left (user functions apart).
-/
import LbfgsbVerif.Model.Shell
import LbfgsbVerif.Model.Compact
import LbfgsbVerif.Model.Cauchy
import LbfgsbVerif.Model.Subspace
import LbfgsbVerif.Model.Dcsrch

namespace Lbfgsb
variable {α : Type} [Add α] [Sub α] [Mul α] [Div α] [Neg α] [LT α] [DecidableLT α]
  [OfNat α 0] [OfNat α 1]

/-- `W = [Y, theta S]` as a list of `n` rows of `2m` entries -/
def buildW (n : Nat) (theta : α) (S Y : List (Vec α)) : List (Vec α) :=
  (List.range n).map fun r => (Y.map fun y => y.getD r 0) ++ (S.map fun s => theta * s.getD r 0)

/-- `M⁻¹ = [[−D, Lᵀ], [L, theta SᵀS]]`, `D = diag(sᵢ·yᵢ)`, `L` the strictly lower part of `SᵀY` -/
def buildMinv (theta : α) (S Y : List (Vec α)) : List (Vec α) :=
  let m := S.length
  let idx := List.range m
  let top : List (Vec α) := idx.map fun i =>
    (idx.map fun j => if i = j then -(dot (S.getD i []) (Y.getD i [])) else 0) ++
    (idx.map fun j => if j > i then dot (S.getD j []) (Y.getD i []) else 0)
  let bot : List (Vec α) := idx.map fun i =>
    (idx.map fun j => if i > j then dot (S.getD i []) (Y.getD j []) else 0) ++
    (idx.map fun j => theta * dot (S.getD i []) (S.getD j []))
  top ++ bot

/-- `g` read as a vector of the size of `x` (the identity on a gradient of the right shape — the only
kind the package accepts; NumPy would refuse to broadcast another one) -/
def fitTo (x g : Vec α) : Vec α := (List.range x.length).map fun j => g.getD j 0

/-- the input of the Cauchy routine for a memory snapshot (`none`, or a history with a single
point: freshly constructed matrices — `W = 0 (n×1)`, `theta = 1`, no factor) -/
def kernelInput (x g0 lb ub : Vec α) (mats : Mats α) (epsFsec : α) : CauchyIn α :=
  let g := fitTo x g0
  match mats with
  | some (X, G) =>
    if X.length > 1 then
      let S := diffs X
      let Y := diffs G
      let theta := thetaOf X G
      { x, g, lb, ub, theta, W := buildW x.length theta S Y, Minv := buildMinv theta S Y, useFactor := true, epsFsec }
    else { x, g, lb, ub, theta := 1, W := x.map fun _ => [0], Minv := [[0]], useFactor := false, epsFsec }
  | none => { x, g, lb, ub, theta := 1, W := x.map fun _ => [0], Minv := [[0]], useFactor := false, epsFsec }

/-- the input of the subspace step: the Cauchy input with the Cauchy point and its auxiliary vector -/
def subInOf (i : CauchyIn α) : SubIn α :=
  let cp := cauchy i
  { i with xc := cp.1, c := cp.2 }

/-- `subspace_minimization ∘ get_cauchy_point` for the current memory -/
def xbarModel (lb ub : Vec α) (epsFsec : α) (x g : Vec α) (mats : Mats α) : Vec α :=
  subspaceMin (subInOf (kernelInput x g lb ub mats epsFsec))

/-- all kernels concrete: the composed kernel models and the model of SciPy's DCSRCH -/
def concreteOracles [FloatLike α] [Dcsrch.DcOps α] (lb ub : Vec α) (epsFsec : α) : Oracles α (Dcsrch.DC α) where
  xbar := xbarModel lb ub epsFsec
  dcNew := fun _ _ ftol gtol xtol stpmax => Dcsrch.DC.new ftol gtol xtol 0 stpmax
  dcIter := Dcsrch.iterate

end Lbfgsb
