#!/bin/bash
# usage: matrix_rev.sh <out.jsonl> <fix-commit>... : like matrix.sh, but only for the named fix commits of /repo (reverted 3-way in the
# working tree, nothing committed), replacing their lines in <out.jsonl>. Serial; /repo is restored after each entry.
cd "$(dirname "$0")"
out=$1; shift
ids=$(/venv/bin/python -c "import json;print(' '.join(c['property_id'] for c in json.load(open('MANIFEST.json'))['checks']))")
if [ -n "$(git -C /repo status --porcelain)" ]; then echo "/repo not clean"; exit 4; fi
for c in "$@"; do
  grep -v "\"entry\": \"$c\"" "$out" > "$out.tmp"; mv "$out.tmp" "$out"
  if ! git -C /repo revert --no-commit $c >/dev/null 2>&1; then
    git -C /repo revert --abort >/dev/null 2>&1; git -C /repo reset -q --hard HEAD
    echo "{\"entry\": \"$c\", \"kind\": \"revert\", \"error\": \"reverse does not apply (later fixes build on it)\"}" >> "$out"; continue
  fi
  git -C /repo reset -q
  tests=$(cd /repo && /venv/bin/python -m pytest -q -p no:cacheprovider 2>&1 | tail -1)
  res=""
  for id in $ids; do
    o=$(./check $id --tier quick 2>&1); rc=$?
    v=$(echo "$o" | grep -m1 -A1 "^VIOLATION" | tr '\n' ' ' | cut -c1-300 | sed 's/"/'"'"'/g')
    res="$res\"$id\": {\"rc\": $rc, \"first\": \"$v\"}, "
  done
  echo "{\"entry\": \"$c\", \"kind\": \"revert\", \"tests\": \"$tests\", \"checks\": {${res%, }}}" >> "$out"
  git -C /repo revert --abort >/dev/null 2>&1; git -C /repo checkout -- . ; git -C /repo reset -q --hard HEAD
done
for t in handlers2lean bench2lean state2lean defaults2lean; do /venv/bin/python translate/$t.py >/dev/null; done
echo done
