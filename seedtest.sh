#!/bin/bash
# usage: seedtest.sh <seed-dir (with patch.diff, demo.py)> <check ids...>
# confirms the seeded change in a scratch worktree, then runs the given checks against /repo with it applied
set -u
SD=$(realpath "$1"); shift
WT=/tmp/seedconfirm_$$
git -C /repo worktree add --detach $WT HEAD -q
cd $WT
mkdir -p _seed && cp $SD/demo.py _seed/
echo "== clean tree: demo"; /venv/bin/python _seed/demo.py >/dev/null 2>&1; echo "demo rc (clean) = $?"
git apply $SD/patch.diff || { echo "PATCH DOES NOT APPLY"; cd /; git -C /repo worktree remove --force $WT; exit 3; }
echo "== patched: tests"; /venv/bin/python -m pytest -q -p no:cacheprovider 2>&1 | tail -1
/venv/bin/python _seed/demo.py >/tmp/seeddemo_$$.out 2>&1; echo "demo rc (patched) = $?"; tail -3 /tmp/seeddemo_$$.out; rm -f /tmp/seeddemo_$$.out
cd /; git -C /repo worktree remove --force $WT
# now against /repo
if [ -n "$(git -C /repo status --porcelain)" ]; then echo "/repo not clean"; exit 4; fi
git -C /repo apply $SD/patch.diff
for c in "$@"; do
  echo "== check $c with the change applied"
  (cd /verif && ./check $c --tier quick 2>&1 | grep -E "VIOLATION|KNOWN|^\[|MACHINERY|^  \(" | head -8)
done
git -C /repo checkout -- .
git -C /repo status --porcelain
