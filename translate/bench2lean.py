"""Translator: /repo/lbfgsb/benchmarks.py -> LbfgsbVerif/Generated/Bench.lean (over ℝ, for the
derivative theorems) and LbfgsbVerif/Generated/BenchF.lean (the same AST over Float, executed by
the driver to validate this translator against the Python functions).

Supported subset = what the file uses: straight-line assignments, np.asarray, .size,
np.sqrt/square/cos/sin/exp/power/prod, .sum(), np.arange(1, n+1), np.pi, slices x[1:], x[:-1],
** with a numeric exponent, scalar/vector broadcasting, np.zeros_like/np.zeros followed by
g[a:b] += e, return. Anything else raises Unsupported (a broken tie, handled by the check).
"""
from __future__ import annotations

import ast
import sys
from pathlib import Path
from typing import Callable, Dict, List, Tuple, Union


class Unsupported(Exception):
    pass


class S:  # scalar expression
    def __init__(self, s: str):
        self.s = s


class V:  # vector expression: length (Lean Nat expr in n) and element as a function of a Lean index expr
    def __init__(self, length: str, elem: Callable[[str], str]):
        self.length, self.elem = length, elem


class Acc:  # accumulator vector built by g[a:b] += e
    def __init__(self):
        self.parts: List[Tuple[str, V]] = []   # (slice kind, vector)


Val = Union[S, V, Acc]


class Tr:
    def __init__(self, real: bool):
        self.real = real

    # ---- literals
    def num(self, v) -> str:
        if self.real:
            if isinstance(v, int):
                return f"({v} : ℝ)"
            r = repr(float(v))
            if "e" in r or "E" in r:
                raise Unsupported(f"literal {r}")
            if r.endswith(".0"):
                return f"({r[:-2]} : ℝ)"
            return f"({r} : ℝ)"
        r = repr(float(v))
        return f"({r} : Float)"

    def nat_to_scalar(self, e: str) -> str:
        return f"(({e} : ℕ) : ℝ)" if self.real else f"(Float.ofNat ({e}))"

    def fn(self, name: str, a: str) -> str:
        table = {"sqrt": ("Real.sqrt", "Float.sqrt"), "exp": ("Real.exp", "Float.exp"),
                 "cos": ("Real.cos", "Float.cos"), "sin": ("Real.sin", "Float.sin")}
        r, f = table[name]
        return f"({r if self.real else f} {a})"

    def pow(self, a: str, p: int) -> str:
        if self.real:
            return f"({a} ^ ({p} : ℕ))"
        return "(" + " * ".join([a] * p) + ")"

    def sum(self, v: V) -> str:
        if self.real:
            return f"(∑ i ∈ Finset.range ({v.length}), {v.elem('i')})"
        return f"(sumF ({v.length}) (fun i => {v.elem('i')}))"

    def prod(self, v: V) -> str:
        if self.real:
            return f"(∏ i ∈ Finset.range ({v.length}), {v.elem('i')})"
        return f"(prodF ({v.length}) (fun i => {v.elem('i')}))"

    # ---- expressions
    def binop(self, op: str, a: Val, b: Val) -> Val:
        def ap(x, y):
            return f"({x} {op} {y})"
        if isinstance(a, S) and isinstance(b, S):
            return S(ap(a.s, b.s))
        if isinstance(a, V) and isinstance(b, S):
            return V(a.length, lambda i, a=a, b=b: ap(a.elem(i), b.s))
        if isinstance(a, S) and isinstance(b, V):
            return V(b.length, lambda i, a=a, b=b: ap(a.s, b.elem(i)))
        if isinstance(a, V) and isinstance(b, V):
            if a.length != b.length:
                raise Unsupported(f"length mismatch {a.length} vs {b.length}")
            return V(a.length, lambda i, a=a, b=b: ap(a.elem(i), b.elem(i)))
        raise Unsupported("binop on accumulator")

    def map(self, f: Callable[[str], str], a: Val) -> Val:
        if isinstance(a, S):
            return S(f(a.s))
        if isinstance(a, V):
            return V(a.length, lambda i, a=a: f(a.elem(i)))
        raise Unsupported("map on accumulator")

    def const_exponent(self, node) -> int:
        if isinstance(node, ast.Constant) and float(node.value) == int(node.value) and int(node.value) >= 1:
            return int(node.value)
        raise Unsupported("exponent " + ast.dump(node))

    def expr(self, n: ast.AST, env: Dict[str, Val]) -> Val:
        if isinstance(n, ast.Constant):
            if isinstance(n.value, (int, float)) and not isinstance(n.value, bool):
                return S(self.num(n.value))
            raise Unsupported(f"constant {n.value!r}")
        if isinstance(n, ast.Name):
            if n.id in env:
                return env[n.id]
            raise Unsupported(f"name {n.id}")
        if isinstance(n, ast.BinOp):
            if isinstance(n.op, ast.Pow):
                p = self.const_exponent(n.right)
                return self.map(lambda a: self.pow(a, p), self.expr(n.left, env))
            ops = {ast.Add: "+", ast.Sub: "-", ast.Mult: "*", ast.Div: "/"}
            if type(n.op) not in ops:
                raise Unsupported(ast.dump(n.op))
            return self.binop(ops[type(n.op)], self.expr(n.left, env), self.expr(n.right, env))
        if isinstance(n, ast.UnaryOp) and isinstance(n.op, ast.USub):
            return self.map(lambda a: f"(-{a})", self.expr(n.operand, env))
        if isinstance(n, ast.Attribute):
            if isinstance(n.value, ast.Name) and n.value.id == "np" and n.attr == "pi":
                return S("Real.pi" if self.real else "(3.141592653589793 : Float)")
            if n.attr == "size":
                v = self.expr(n.value, env)
                if isinstance(v, V):
                    return S(self.nat_to_scalar(v.length))
            raise Unsupported(ast.dump(n))
        if isinstance(n, ast.Subscript):
            v = self.expr(n.value, env)
            if not isinstance(v, V) or not isinstance(n.slice, ast.Slice):
                raise Unsupported("subscript")
            sl = n.slice
            lo = sl.lower.value if isinstance(sl.lower, ast.Constant) else None
            hi = None
            if isinstance(sl.upper, ast.UnaryOp) and isinstance(sl.upper.op, ast.USub) and isinstance(sl.upper.operand, ast.Constant):
                hi = -sl.upper.operand.value
            if sl.step is not None:
                raise Unsupported("slice step")
            if (lo, hi) == (1, None) and sl.upper is None:
                return V(f"{v.length} - 1", lambda i, v=v: v.elem(f"({i} + 1)"))
            if (lo, hi) == (None, -1) and sl.lower is None:
                return V(f"{v.length} - 1", lambda i, v=v: v.elem(i))
            raise Unsupported("slice " + ast.unparse(n))
        if isinstance(n, ast.Call):
            f = n.func
            if isinstance(f, ast.Attribute) and f.attr == "sum" and not n.args:
                v = self.expr(f.value, env)
                if isinstance(v, V):
                    return S(self.sum(v))
                raise Unsupported("sum of scalar")
            if isinstance(f, ast.Attribute) and isinstance(f.value, ast.Name) and f.value.id == "np":
                name = f.attr
                args = n.args
                if name == "asarray":
                    return self.expr(args[0], env)
                if name in ("sqrt", "exp", "cos", "sin"):
                    return self.map(lambda a: self.fn(name, a), self.expr(args[0], env))
                if name == "square":
                    return self.map(lambda a: self.pow(a, 2), self.expr(args[0], env))
                if name == "power":
                    p = self.const_exponent(args[1])
                    return self.map(lambda a: self.pow(a, p), self.expr(args[0], env))
                if name == "prod":
                    v = self.expr(args[0], env)
                    if isinstance(v, V):
                        return S(self.prod(v))
                    raise Unsupported("prod of scalar")
                if name == "arange":
                    # np.arange(1, ndim + 1)
                    if len(args) == 2 and isinstance(args[0], ast.Constant) and args[0].value == 1 \
                            and ast.unparse(args[1]) in ("ndim + 1", "x.size + 1"):
                        return V("n", lambda i: "(" + self.nat_to_scalar(i) + " + " + self.num(1) + ")")
                    raise Unsupported("arange " + ast.unparse(n))
                if name in ("zeros_like", "zeros"):
                    return Acc()
            raise Unsupported("call " + ast.unparse(n))
        raise Unsupported(ast.dump(n))

    def function(self, fd: ast.FunctionDef) -> Tuple[str, Val]:
        env: Dict[str, Val] = {"x": V("n", lambda i: f"(x {i})")}
        for st in fd.body:
            if isinstance(st, ast.Expr) and isinstance(st.value, ast.Constant):
                continue  # docstring
            if isinstance(st, ast.Assign) and len(st.targets) == 1 and isinstance(st.targets[0], ast.Name):
                env[st.targets[0].id] = self.expr(st.value, env)
                continue
            if isinstance(st, ast.AugAssign) and isinstance(st.op, ast.Add) and isinstance(st.target, ast.Subscript) \
                    and isinstance(st.target.value, ast.Name) and isinstance(env.get(st.target.value.id), Acc):
                sl = ast.unparse(st.target.slice)
                if sl not in ("1:", ":-1"):
                    raise Unsupported("accumulate slice " + sl)
                v = self.expr(st.value, env)
                if not isinstance(v, V):
                    raise Unsupported("accumulate scalar")
                env[st.target.value.id].parts.append((sl, v))
                continue
            if isinstance(st, ast.Return):
                return fd.name, self.expr(st.value, env)
            raise Unsupported(f"statement at line {st.lineno}: {ast.unparse(st)[:60]}")
        raise Unsupported("no return")

    def component(self, val: Val, k: str) -> str:
        """k-th component of a gradient value"""
        zero = self.num(0)
        if isinstance(val, V):
            return val.elem(k)
        if isinstance(val, Acc):
            terms = []
            for sl, v in val.parts:
                if sl == ":-1":
                    terms.append(f"(if {k} + 1 < n then {v.elem(k)} else {zero})")
                else:
                    terms.append(f"(if 1 ≤ {k} ∧ {k} < n then {v.elem(f'({k} - 1)')} else {zero})")
            return "(" + " + ".join(terms) + ")" if terms else zero
        raise Unsupported("scalar gradient")


HEADER_R = """/- GENERATED by translate/bench2lean.py from /repo/lbfgsb/benchmarks.py — do not edit.
   Every benchmark `f` becomes `f (n : ℕ) (x : ℕ → ℝ) : ℝ` (n = x.size, x i = x[i]);
   every gradient `f_grad` becomes `f_grad (n : ℕ) (x : ℕ → ℝ) (k : ℕ) : ℝ` (component k). -/
import Mathlib.Analysis.SpecialFunctions.Trigonometric.Basic
import Mathlib.Analysis.SpecialFunctions.Exp
import Mathlib.Analysis.SpecialFunctions.Sqrt
import Mathlib.Algebra.BigOperators.Intervals

namespace Lbfgsb.Generated.Bench
open Finset
noncomputable section

"""

HEADER_F = """/- GENERATED by translate/bench2lean.py from /repo/lbfgsb/benchmarks.py — do not edit.
   Float twin of Generated/Bench.lean (same AST), executed by the driver to validate the
   translator against the Python functions. -/
namespace Lbfgsb.Generated.BenchF

def sumF (n : Nat) (f : Nat → Float) : Float := (List.range n).foldl (fun acc i => acc + f i) 0.0
def prodF (n : Nat) (f : Nat → Float) : Float := (List.range n).foldl (fun acc i => acc * f i) 1.0

"""


def generate(repo: Path):
    src = (repo / "lbfgsb" / "benchmarks.py").read_text()
    tree = ast.parse(src)
    fds = [n for n in tree.body if isinstance(n, ast.FunctionDef)]
    outR, outF = [HEADER_R], [HEADER_F]
    names = []
    for fd in fds:
        is_grad = fd.name.endswith("_grad")
        for real, out in ((True, outR), (False, outF)):
            tr = Tr(real)
            name, val = tr.function(fd)
            ty = "ℝ" if real else "Float"
            nat = "ℕ" if real else "Nat"
            if is_grad:
                body = tr.component(val, "k")
                out.append(f"def {name} (n : {nat}) (x : {nat} → {ty}) (k : {nat}) : {ty} :=\n  {body}\n\n")
            else:
                if not isinstance(val, S):
                    raise Unsupported(f"{name} does not return a scalar")
                out.append(f"def {name} (n : {nat}) (x : {nat} → {ty}) : {ty} :=\n  {val.s}\n\n")
        names.append(fd.name)
    outR.append("end\nend Lbfgsb.Generated.Bench\n")
    table = ",\n".join(f'  ("{n}", fun n x => (List.range n).map (fun k => {n} n x k))' if n.endswith("_grad")
                       else f'  ("{n}", fun n x => [{n} n x])' for n in names)
    outF.append("/-- name -> evaluator (value as a one-element list, gradient as the list of components) -/\n"
                "def table : List (String × (Nat → (Nat → Float) → List Float)) := [\n" + table + "\n]\n\n")
    outF.append("end Lbfgsb.Generated.BenchF\n")
    return "".join(outR), "".join(outF), names


def main(repo="/repo", outdir=str(Path(__file__).resolve().parent.parent / "lean" / "LbfgsbVerif" / "Generated")):
    r, f, names = generate(Path(repo))
    for fn, txt in (("Bench.lean", r), ("BenchF.lean", f)):
        p = Path(outdir) / fn
        if not p.exists() or p.read_text() != txt:
            p.write_text(txt)
    return names


if __name__ == "__main__":
    print(main(*sys.argv[1:]))
