"""Translator: every try/except in lbfgsb/*.py -> LbfgsbVerif/Generated/Handlers.lean.

For each handler: file, line, caught exception types, the names called in the try body, and
whether the body can reach a user callable. Reachability is a conservative name-based call
graph over the package: a function reaches the user if it calls one of the user-callable
parameter names or (transitively) a function of the package that does.

A handler is *transparent* when it cannot change what the caller of the minimiser sees of an
exception (syntactic criterion, all of):
  * every clause is `except T as e:` whose body is the single statement `raise`, `raise e`, or
    `raise C(e)` (with or without `from None`) with C a *carrier* class;
  * a carrier class is defined in the package as `class C(Exception)` with a docstring/pass body only, is
    named nowhere except in such wrapping clauses and in *unwrapping* clauses
    `except C as c: raise c.args[0]` (single statement, with or without `from None`);
  * the carrier cannot escape un-unwrapped: every mention of the function lexically enclosing a wrapping clause is inside
    the try body of an unwrapping clause for the same carrier, or is an alias assignment `obj.attr = name`, or lies inside
    another function of the package — and the same then holds of that attribute / function name, up to a fixpoint in
    which every exposed name is mentioned somewhere in the package (an unmentioned one is an entry point).
An unwrapping clause for a carrier whose every construction site is such a wrapping clause is transparent too.
"""
from __future__ import annotations

import ast
import sys
from pathlib import Path
from typing import Dict, List, Set

USER_PARAMS = {"fun", "jac", "grad", "callback", "update_fun_def", "gradient_scaler", "ftarget", "gtol"}


def called_names(node: ast.AST) -> Set[str]:
    out = set()
    for n in ast.walk(node):
        if isinstance(n, ast.Call):
            f = n.func
            if isinstance(f, ast.Name):
                out.add(f.id)
            elif isinstance(f, ast.Attribute):
                out.add(f.attr)
            # a function handed over as an argument may be called by the callee (e.g. the differencing routine)
            for a in list(n.args) + [k.value for k in n.keywords]:
                if isinstance(a, ast.Name):
                    out.add(a.id)
                elif isinstance(a, ast.Attribute):
                    out.add(a.attr)
    return out


def analyse(repo: Path):
    files = sorted((repo / "lbfgsb").glob("*.py"))
    funcs: Dict[str, Set[str]] = {}
    tries = []
    for f in files:
        tree = ast.parse(f.read_text())
        for n in ast.walk(tree):
            if isinstance(n, (ast.FunctionDef, ast.AsyncFunctionDef, ast.Lambda)):
                name = getattr(n, "name", f"<lambda:{f.name}:{n.lineno}>")
                funcs.setdefault(name, set()).update(called_names(n))
        for n in ast.walk(tree):
            if isinstance(n, ast.Try):
                caught = []
                for h in n.handlers:
                    if h.type is None:
                        caught.append("BaseException")
                    elif isinstance(h.type, ast.Tuple):
                        caught += [ast.unparse(e) for e in h.type.elts]
                    else:
                        caught.append(ast.unparse(h.type))
                body = ast.Module(body=n.body, type_ignores=[])
                tries.append({"file": f.name, "line": n.lineno, "caught": caught,
                              "calls": sorted(called_names(body)),
                              "swallows": not all(any(isinstance(s, ast.Raise) for s in ast.walk(ast.Module(body=h.body, type_ignores=[]))) for h in n.handlers)})
    # aliases: `obj.attr = name` makes a call to `attr` a call to `name`
    alias: Dict[str, Set[str]] = {}
    for f in files:
        for n in ast.walk(ast.parse(f.read_text())):
            if isinstance(n, ast.Assign) and isinstance(n.value, ast.Name):
                for t in n.targets:
                    if isinstance(t, ast.Attribute):
                        alias.setdefault(t.attr, set()).add(n.value.id)
    for name in list(funcs):
        extra = set()
        for c in funcs[name]:
            extra |= alias.get(c, set())
        funcs[name] |= extra
    for t in tries:
        extra = set()
        for c in t["calls"]:
            extra |= alias.get(c, set())
        t["calls"] = sorted(set(t["calls"]) | extra)
    # fixpoint: functions reaching a user callable
    reach = {name for name, calls in funcs.items() if calls & USER_PARAMS}
    changed = True
    while changed:
        changed = False
        for name, calls in funcs.items():
            if name not in reach and calls & reach:
                reach.add(name)
                changed = True
    for t in tries:
        t["reaches_user"] = bool(set(t["calls"]) & (reach | USER_PARAMS))
    transparency(files, tries)
    return tries, sorted(reach)


def transparency(files, tries) -> None:
    trees = {f.name: ast.parse(f.read_text()) for f in files}
    # carrier candidates: class C(Exception) with only a docstring / pass
    carriers: Set[str] = set()
    for tree in trees.values():
        for n in ast.walk(tree):
            if isinstance(n, ast.ClassDef) and [ast.unparse(b) for b in n.bases] == ["Exception"] and not n.keywords and not n.decorator_list \
                    and all(isinstance(b, ast.Pass) or (isinstance(b, ast.Expr) and isinstance(b.value, ast.Constant) and isinstance(b.value.value, str)) for b in n.body):
                carriers.add(n.name)

    def is_wrap(h: ast.ExceptHandler):
        """`except T as e: raise C(e) from None` -> C"""
        if h.name is None or len(h.body) != 1 or not isinstance(h.body[0], ast.Raise):
            return None
        r = h.body[0]
        if not (isinstance(r.exc, ast.Call) and isinstance(r.exc.func, ast.Name) and r.exc.func.id in carriers and not r.exc.keywords
                and len(r.exc.args) == 1 and isinstance(r.exc.args[0], ast.Name) and r.exc.args[0].id == h.name):
            return None
        if not (r.cause is None or (isinstance(r.cause, ast.Constant) and r.cause.value is None)):
            return None
        return r.exc.func.id

    def is_reraise(h: ast.ExceptHandler) -> bool:
        if len(h.body) != 1 or not isinstance(h.body[0], ast.Raise):
            return False
        r = h.body[0]
        return (r.exc is None and r.cause is None) or (h.name is not None and isinstance(r.exc, ast.Name) and r.exc.id == h.name and r.cause is None)

    def is_unwrap(h: ast.ExceptHandler):
        """`except C as c: raise c.args[0] from None` -> C"""
        if h.name is None or not (isinstance(h.type, ast.Name) and h.type.id in carriers) or len(h.body) != 1 or not isinstance(h.body[0], ast.Raise):
            return None
        r = h.body[0]
        ok = (isinstance(r.exc, ast.Subscript) and isinstance(r.exc.value, ast.Attribute) and r.exc.value.attr == "args"
              and isinstance(r.exc.value.value, ast.Name) and r.exc.value.value.id == h.name
              and isinstance(r.exc.slice, ast.Constant) and r.exc.slice.value == 0
              and (r.cause is None or (isinstance(r.cause, ast.Constant) and r.cause.value is None)))
        return h.type.id if ok else None

    # collect per file: try nodes with parents
    wrap_sites = []    # (carrier, enclosing function name, file, try line)
    unwrap_sites = []  # (carrier, try node, file)
    allowed_name_nodes = set()  # id() of Name nodes mentioning a carrier legitimately
    for fname, tree in trees.items():
        parent = {}
        for n in ast.walk(tree):
            for c in ast.iter_child_nodes(n):
                parent[id(c)] = n
        for n in ast.walk(tree):
            if not isinstance(n, ast.Try):
                continue
            for h in n.handlers:
                c = is_wrap(h)
                if c:
                    q = n
                    while q is not None and not isinstance(q, (ast.FunctionDef, ast.AsyncFunctionDef)):
                        q = parent.get(id(q))
                    wrap_sites.append((c, q.name if q is not None else None, fname, n.lineno))
                    allowed_name_nodes.add(id(h.body[0].exc.func))
                c = is_unwrap(h)
                if c:
                    unwrap_sites.append((c, n, fname))
                    allowed_name_nodes.add(id(h.type))
    sound: Set[str] = set()
    for c in carriers:
        ok = True
        # the carrier is named only at its definition, in wrapping and in unwrapping clauses
        for tree in trees.values():
            for n in ast.walk(tree):
                if isinstance(n, ast.Name) and n.id == c and id(n) not in allowed_name_nodes:
                    ok = False
                if isinstance(n, ast.Attribute) and n.attr == c:
                    ok = False
                if isinstance(n, (ast.ImportFrom, ast.Import)) and any(a.name == c or a.asname == c for a in n.names):
                    ok = False
        my_unwraps = [t for (cc, t, _) in unwrap_sites if cc == c]
        my_wraps = [w for w in wrap_sites if w[0] == c]
        if not my_wraps or not my_unwraps:
            ok = False
        # the carrier cannot escape un-unwrapped: starting from the functions that lexically enclose a wrapping clause,
        # every mention of an exposed name is (i) inside the try body of an unwrapping clause for this carrier, or
        # (ii) the value of an alias assignment `obj.attr = name` (then `attr` is exposed too), or (iii) inside another
        # function of the package (then that function is exposed too); an exposed name must be mentioned somewhere
        # (a function nobody names in the package is an entry point: the carrier would leave the package through it)
        unwrap_ids = set()
        for t in my_unwraps:
            for b_ in t.body:
                for n in ast.walk(b_):
                    unwrap_ids.add(id(n))
        exposed = {encl for (_, encl, _, _) in my_wraps}
        if None in exposed:
            ok = False
            exposed.discard(None)
        done: Set[str] = set()
        while ok and exposed - done:
            name = sorted(exposed - done)[0]
            done.add(name)
            mentions = 0
            for tree in trees.values():
                par = {}
                for n in ast.walk(tree):
                    for ch in ast.iter_child_nodes(n):
                        par[id(ch)] = n
                for n in ast.walk(tree):
                    hit = (isinstance(n, ast.Name) and n.id == name) or (isinstance(n, ast.Attribute) and n.attr == name)
                    if not hit:
                        continue
                    pa = par.get(id(n))
                    if isinstance(n, ast.Attribute) and isinstance(n.ctx, ast.Store):
                        continue    # the target side of an alias assignment
                    mentions += 1
                    if id(n) in unwrap_ids:
                        continue
                    if isinstance(pa, ast.Assign) and pa.value is n and all(isinstance(t_, ast.Attribute) for t_ in pa.targets):
                        exposed |= {t_.attr for t_ in pa.targets}
                        continue
                    q = pa
                    while q is not None and not isinstance(q, (ast.FunctionDef, ast.AsyncFunctionDef, ast.Lambda)):
                        q = par.get(id(q))
                    if isinstance(q, (ast.FunctionDef, ast.AsyncFunctionDef)):
                        exposed.add(q.name)
                    else:
                        ok = False   # module level or a lambda: not tracked
            if mentions == 0:
                ok = False
        if ok:
            sound.add(c)
    # classify every try of the table (same walk order as in analyse)
    k = 0
    for f in files:
        for n in ast.walk(trees[f.name]):
            if not isinstance(n, ast.Try):
                continue
            t = tries[k]
            k += 1
            assert t["line"] == n.lineno and t["file"] == f.name
            clauses = []
            for h in n.handlers:
                c = is_wrap(h)
                u = is_unwrap(h)
                clauses.append(is_reraise(h) or (c in sound if c else False) or (u in sound if u else False))
            t["transparent"] = bool(clauses) and all(clauses) and not n.orelse and not n.finalbody
    assert k == len(tries)


def render(tries, reach) -> str:
    def s(x):
        return '"' + x.replace('"', "'") + '"'
    L = ["/- GENERATED by translate/handlers2lean.py from /repo/lbfgsb/*.py — do not edit. -/",
         "namespace Lbfgsb.Generated", "",
         "structure Handler where",
         "  file : String", "  line : Nat", "  caught : List String", "  calls : List String",
         "  reachesUser : Bool", "  swallows : Bool",
         "  /-- every clause re-raises the caught exception itself, or carries it in a private class that is unwrapped again (see the translator) -/",
         "  transparent : Bool", "  deriving Repr, DecidableEq", "",
         "def handlers : List Handler := ["]
    rows = []
    for t in tries:
        rows.append("  { file := %s, line := %d, caught := [%s], calls := [%s], reachesUser := %s, swallows := %s, transparent := %s }" % (
            s(t["file"]), t["line"], ", ".join(s(c) for c in t["caught"]), ", ".join(s(c) for c in t["calls"]),
            "true" if t["reaches_user"] else "false", "true" if t["swallows"] else "false", "true" if t["transparent"] else "false"))
    L.append(",\n".join(rows))
    L += ["]", "", "/-- functions of the package that can reach a user callable (name-based call graph) -/",
          "def reachingFunctions : List String := [" + ", ".join(s(r) for r in reach) + "]", "",
          "end Lbfgsb.Generated", ""]
    return "\n".join(L)


def main(repo="/repo", out=str(Path(__file__).resolve().parent.parent / "lean" / "LbfgsbVerif" / "Generated" / "Handlers.lean")):
    tries, reach = analyse(Path(repo))
    txt = render(tries, reach)
    p = Path(out)
    if not p.exists() or p.read_text() != txt:
        p.write_text(txt)
    return tries


if __name__ == "__main__":
    for t in main(*sys.argv[1:]):
        print(t)
