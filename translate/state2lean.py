"""Translator: where could two runs of the package share or leak state?  lbfgsb/*.py ->
LbfgsbVerif/Generated/State.lean.

Three tables, extracted from the AST of every module of the package:

  * `globals`: module-level (and class-level) names bound to a mutable object (list / dict / set
    display or comprehension, a call such as list(), dict(), set(), deque(), np.zeros(...),
    np.array(...), ...), with the list of places where package code writes into them
    (`name[...] = `, `name += `, `name.append/extend/update/...(...)`, `del name[...]`,
    `global name` + assignment, `Cls.attr = ...` / `cls.attr = ...` / `type(self).attr = ...`);
  * `defaults`: parameters whose default value is a mutable object created once at definition
    time, with the places where the function body writes into the parameter, and the places where
    it is handed to another callable (`escapes`: a foreign routine may write into it);
  * `display`: every `if` whose test reads `iprint` or `logger` outside the display helpers, with
    the names its body assigns that are read outside the block (`leaks`), the in-place
    modifications it performs on anything else than its own locals (`writes`), and the control
    transfers (`return` / `break` / `continue` / `raise`) it contains; and every display helper
    (function named display_*), with the writes it performs on its parameters.

The Lean side states `no shared mutable state is written`, `no mutable default is written`,
`display code is read-only` over these tables, by kernel evaluation.
"""
from __future__ import annotations

import ast
import sys
from pathlib import Path
from typing import Dict, List, Set, Tuple

MUT_CALLS = {"list", "dict", "set", "deque", "defaultdict", "OrderedDict", "bytearray", "zeros", "ones", "empty",
             "array", "asarray", "full", "arange", "eye", "zeros_like", "ones_like", "empty_like", "lil_matrix",
             "Counter"}
MUT_METHODS = {"append", "extend", "insert", "pop", "remove", "clear", "update", "setdefault", "add", "discard",
               "sort", "reverse", "fill", "resize", "popleft", "appendleft", "itemset", "put", "setflags", "partition"}


def is_mutable_value(v: ast.AST) -> bool:
    if isinstance(v, (ast.List, ast.Dict, ast.Set, ast.ListComp, ast.DictComp, ast.SetComp)):
        return True
    if isinstance(v, ast.Call):
        f = v.func
        name = f.id if isinstance(f, ast.Name) else (f.attr if isinstance(f, ast.Attribute) else "")
        return name in MUT_CALLS
    return False


def base_name(t: ast.AST):
    """the name at the root of a subscript / attribute chain"""
    while isinstance(t, (ast.Subscript, ast.Attribute)):
        t = t.value
    return t.id if isinstance(t, ast.Name) else None


def writes_in(node: ast.AST) -> List[Tuple[str, int, str]]:
    """(root name, line, how) for every in-place modification syntactically visible in `node`"""
    out = []
    for n in ast.walk(node):
        if isinstance(n, ast.Assign):
            for t in n.targets:
                for tt in (t.elts if isinstance(t, (ast.Tuple, ast.List)) else [t]):
                    if isinstance(tt, (ast.Subscript, ast.Attribute)):
                        b = base_name(tt)
                        if b:
                            out.append((b, n.lineno, "store"))
        elif isinstance(n, ast.AugAssign):
            b = base_name(n.target)
            if b:
                out.append((b, n.lineno, "augassign"))
        elif isinstance(n, ast.Delete):
            for t in n.targets:
                if isinstance(t, (ast.Subscript, ast.Attribute)):
                    b = base_name(t)
                    if b:
                        out.append((b, n.lineno, "del"))
        elif isinstance(n, ast.Call) and isinstance(n.func, ast.Attribute) and n.func.attr in MUT_METHODS:
            b = base_name(n.func.value)
            if b:
                out.append((b, n.lineno, n.func.attr))
    return out


def local_binds(fn: ast.AST) -> Set[str]:
    """names (re)bound by plain assignment / for / with / comprehension inside a function"""
    s: Set[str] = set()
    for n in ast.walk(fn):
        if isinstance(n, ast.Name) and isinstance(n.ctx, ast.Store):
            s.add(n.id)
    return s


def analyse(repo: Path):
    files = sorted((repo / "lbfgsb").glob("*.py"))
    globs, defaults, display = [], [], []
    trees = {f.name: ast.parse(f.read_text()) for f in files}
    # ---- module-level / class-level mutable objects
    mod_mut: Dict[str, List[Tuple[str, str, int]]] = {}
    for fname, tree in trees.items():
        for st in tree.body:
            targets = []
            if isinstance(st, ast.Assign) and is_mutable_value(st.value):
                targets = [t.id for t in st.targets if isinstance(t, ast.Name)]
            elif isinstance(st, ast.AnnAssign) and st.value is not None and is_mutable_value(st.value) and isinstance(st.target, ast.Name):
                targets = [st.target.id]
            for t in targets:
                mod_mut.setdefault(t, []).append((fname, "module", st.lineno))
            if isinstance(st, ast.ClassDef):
                for cs in st.body:
                    if isinstance(cs, ast.Assign) and is_mutable_value(cs.value):
                        for t in cs.targets:
                            if isinstance(t, ast.Name):
                                mod_mut.setdefault(t.id, []).append((fname, "class " + st.name, cs.lineno))
                    elif isinstance(cs, ast.AnnAssign) and cs.value is not None and is_mutable_value(cs.value) and isinstance(cs.target, ast.Name):
                        mod_mut.setdefault(cs.target.id, []).append((fname, "class " + st.name, cs.lineno))
    class_names = {st.name for tree in trees.values() for st in tree.body if isinstance(st, ast.ClassDef)}
    gwrites: Dict[str, List[str]] = {k: [] for k in mod_mut}
    class_attr_writes: List[str] = []
    for fname, tree in trees.items():
        for fn in ast.walk(tree):
            if not isinstance(fn, (ast.FunctionDef, ast.AsyncFunctionDef)):
                continue
            declared_global = {n for g in ast.walk(fn) if isinstance(g, ast.Global) for n in g.names}
            params = {a.arg for a in fn.args.args + fn.args.kwonlyargs + fn.args.posonlyargs}
            locs = local_binds(fn) | params
            for (b, line, how) in writes_in(fn):
                if b in mod_mut and (b not in locs or b in declared_global):
                    gwrites[b].append(f"{fname}:{line}:{how}")
                if b in class_names or b == "cls":
                    class_attr_writes.append(f"{fname}:{line}:{how} on {b}")
            for n in ast.walk(fn):
                # type(self).attr = ... / self.__class__.attr = ...
                if isinstance(n, (ast.Assign, ast.AugAssign)):
                    tg = n.targets if isinstance(n, ast.Assign) else [n.target]
                    for t in tg:
                        if isinstance(t, ast.Attribute):
                            v = t.value
                            if (isinstance(v, ast.Call) and isinstance(v.func, ast.Name) and v.func.id == "type") or \
                               (isinstance(v, ast.Attribute) and v.attr == "__class__"):
                                class_attr_writes.append(f"{fname}:{n.lineno}:class attribute via instance")
                if isinstance(n, ast.Global):
                    for nm in n.names:
                        gwrites.setdefault(nm, []).append(f"{fname}:{n.lineno}:global")
                        mod_mut.setdefault(nm, []).append((fname, "global statement", n.lineno))
    for name, places in sorted(mod_mut.items()):
        for (fname, where, line) in places:
            globs.append({"file": fname, "name": name, "where": where, "line": line, "writes": sorted(set(gwrites.get(name, [])))})
    if class_attr_writes:
        globs.append({"file": "*", "name": "<class attributes>", "where": "class", "line": 0, "writes": sorted(set(class_attr_writes))})
    # ---- function caches (functools.lru_cache / cache on package functions = hidden state)
    for fname, tree in trees.items():
        for fn in ast.walk(tree):
            if isinstance(fn, (ast.FunctionDef, ast.AsyncFunctionDef)):
                for d in fn.decorator_list:
                    dn = ast.unparse(d)
                    if "cache" in dn:
                        globs.append({"file": fname, "name": f"<{dn} on {fn.name}>", "where": "decorator", "line": fn.lineno,
                                      "writes": [f"{fname}:{fn.lineno}:memoised"]})
                # function attributes used as storage: f.attr = ...
                for n in ast.walk(fn):
                    if isinstance(n, ast.Assign):
                        for t in n.targets:
                            if isinstance(t, ast.Attribute) and isinstance(t.value, ast.Name) and t.value.id == fn.name:
                                globs.append({"file": fname, "name": f"<attribute of function {fn.name}>", "where": "function attribute",
                                              "line": n.lineno, "writes": [f"{fname}:{n.lineno}:store"]})
    # ---- mutable defaults
    for fname, tree in trees.items():
        for fn in ast.walk(tree):
            if not isinstance(fn, (ast.FunctionDef, ast.AsyncFunctionDef)):
                continue
            a = fn.args
            pos = a.posonlyargs + a.args
            pairs = list(zip(pos[len(pos) - len(a.defaults):], a.defaults)) + \
                [(p, d) for p, d in zip(a.kwonlyargs, a.kw_defaults) if d is not None]
            for p, d in pairs:
                if not is_mutable_value(d):
                    continue
                w = sorted({f"{fname}:{line}:{how}" for (b, line, how) in writes_in(fn) if b == p.arg})
                esc = []
                for n in ast.walk(fn):
                    if isinstance(n, ast.Call):
                        for arg in list(n.args) + [k.value for k in n.keywords]:
                            if isinstance(arg, ast.Name) and arg.id == p.arg:
                                esc.append(ast.unparse(n.func))
                    if isinstance(n, ast.Return) and isinstance(n.value, ast.Name) and n.value.id == p.arg:
                        esc.append("return")
                defaults.append({"file": fname, "func": fn.name, "param": p.arg, "line": fn.lineno, "writes": w, "escapes": sorted(set(esc))})
    # ---- display code
    # names whose call can reach a user callable (conservative name-based call graph of handlers2lean: the user-callable parameters,
    # every function of the package that calls one of them, transitively, nested functions such as `phi` included)
    import handlers2lean as _h2l
    _tries, _reach = _h2l.analyse(repo)
    reaching = set(_reach) | set(_h2l.USER_PARAMS)

    def user_calls(node: ast.AST):
        called = set()
        for m in ast.walk(node):
            if isinstance(m, ast.Call):
                if isinstance(m.func, ast.Name):
                    called.add(m.func.id)
                elif isinstance(m.func, ast.Attribute):
                    called.add(m.func.attr)
        return sorted(c for c in called if c in reaching)

    def reads_iprint(test: ast.AST) -> bool:
        return any(isinstance(n, ast.Name) and n.id in ("iprint", "logger") for n in ast.walk(test))

    for fname, tree in trees.items():
        for fn in ast.walk(tree):
            if not isinstance(fn, (ast.FunctionDef, ast.AsyncFunctionDef)):
                continue
            is_display = fn.name.startswith("display") or fn.name.startswith("_display")
            if is_display:
                params = {a.arg for a in fn.args.args + fn.args.kwonlyargs + fn.args.posonlyargs}
                w = sorted({f"{line}:{how} on {b}" for (b, line, how) in writes_in(fn) if b in params})
                display.append({"file": fname, "line": fn.lineno, "kind": "helper " + fn.name, "leaks": [], "writes": w, "jumps": [],
                                "evals": user_calls(fn)})
                continue
            for n in ast.walk(fn):
                if not (isinstance(n, ast.If) and reads_iprint(n.test)):
                    continue
                body = ast.Module(body=n.body + n.orelse, type_ignores=[])
                assigned = {m.id for m in ast.walk(body) if isinstance(m, ast.Name) and isinstance(m.ctx, ast.Store)}
                inside = {id(m) for m in ast.walk(body)}
                leaks = sorted({m.id for m in ast.walk(fn) if isinstance(m, ast.Name) and isinstance(m.ctx, ast.Load)
                                and m.id in assigned and id(m) not in inside})
                w = sorted({f"{line}:{how} on {b}" for (b, line, how) in writes_in(body) if b not in assigned and b != "logger"})
                jumps = sorted({f"{type(m).__name__.lower()}@{m.lineno}" for m in ast.walk(body)
                                if isinstance(m, (ast.Return, ast.Break, ast.Continue, ast.Raise))})
                display.append({"file": fname, "line": n.lineno, "kind": "block in " + fn.name, "leaks": leaks, "writes": w, "jumps": jumps,
                                "evals": user_calls(body)})
    # display helpers must be called as statements; when their value is kept, the variable may
    # only be read in the test of an `if` whose body is display code
    helper_names = {d["kind"].split(" ", 1)[1] for d in display if d["kind"].startswith("helper ")}

    def display_only(stmts) -> bool:
        for st in stmts:
            if isinstance(st, ast.Pass):
                continue
            if isinstance(st, ast.Expr) and isinstance(st.value, ast.Call):
                f = st.value.func
                if isinstance(f, ast.Name) and f.id in helper_names:
                    continue
                if isinstance(f, ast.Attribute) and isinstance(f.value, ast.Name) and f.value.id == "logger":
                    continue
            return False
        return True

    for fname, tree in trees.items():
        for fn in ast.walk(tree):
            if not isinstance(fn, (ast.FunctionDef, ast.AsyncFunctionDef)):
                continue
            parents = {}
            for n in ast.walk(fn):
                for c in ast.iter_child_nodes(n):
                    parents[id(c)] = n
            for n in ast.walk(fn):
                if not (isinstance(n, ast.Call) and isinstance(n.func, ast.Name) and n.func.id in helper_names):
                    continue
                par = parents.get(id(n))
                if isinstance(par, ast.Expr):
                    continue
                bad = True
                if isinstance(par, ast.Assign) and len(par.targets) == 1 and isinstance(par.targets[0], ast.Name):
                    v = par.targets[0].id
                    bad = False
                    for m in ast.walk(fn):
                        if isinstance(m, ast.Name) and m.id == v and isinstance(m.ctx, ast.Load):
                            # climb to the enclosing `if` test
                            q, ok = m, False
                            while id(q) in parents:
                                pq = parents[id(q)]
                                if isinstance(pq, ast.If) and any(q is t or any(q is w for w in ast.walk(pq.test)) for t in [pq.test]):
                                    ok = display_only(pq.body) and display_only(pq.orelse)
                                    break
                                q = pq
                            if not ok:
                                bad = True
                if bad:
                    display.append({"file": fname, "line": n.lineno, "kind": "value of helper " + n.func.id + " used", "leaks": [n.func.id],
                                    "writes": [], "jumps": []})
    # ---- in-place writes on the caller's inputs in the public entry point (flow-insensitive, with direct aliases)
    input_writes = []
    tree = trees.get("main.py")
    if tree is not None:
        for fn in ast.walk(tree):
            if isinstance(fn, ast.FunctionDef) and fn.name == "minimize_lbfgsb":
                params = {a.arg for a in fn.args.args + fn.args.kwonlyargs + fn.args.posonlyargs} & {"x0", "bounds", "checkpoint", "args"}
                aliases = set(params)
                changed = True
                while changed:
                    changed = False
                    for n in ast.walk(fn):
                        if isinstance(n, ast.Assign) and isinstance(n.value, (ast.Name, ast.Attribute, ast.Subscript)):
                            b = base_name(n.value)
                            # scalar fields of a checkpoint (fun, nit, nfev, ...) are immutable values: binding one is no alias
                            if isinstance(n.value, ast.Attribute) and n.value.attr not in ("x", "jac", "hess_inv", "sk", "yk"):
                                continue
                            if b in aliases:
                                for t in n.targets:
                                    if isinstance(t, ast.Name) and t.id not in aliases:
                                        aliases.add(t.id)
                                        changed = True
                for (b, line, how) in writes_in(fn):
                    if b in aliases:
                        input_writes.append(f"main.py:{line}:{how} on {b}")
    display_extra = sorted(set(input_writes))
    return globs, defaults, display, display_extra


def lstr(xs: List[str]) -> str:
    return "[" + ", ".join('"' + x.replace('"', "'") + '"' for x in xs) + "]"


def emit(globs, defaults, display, input_writes) -> str:
    L = ["/- GENERATED by translate/state2lean.py from /repo/lbfgsb/*.py — do not edit. -/",
         "namespace Lbfgsb.Generated.State", "",
         "structure Global where", "  file : String", "  name : String", "  place : String", "  line : Nat",
         "  writes : List String", "  deriving Repr, DecidableEq", "",
         "structure Default where", "  file : String", "  func : String", "  param : String", "  line : Nat",
         "  writes : List String", "  escapes : List String", "  deriving Repr, DecidableEq", "",
         "structure Display where", "  file : String", "  line : Nat", "  kind : String", "  leaks : List String",
         "  writes : List String", "  jumps : List String",
         "  /-- names called in the display code whose call can reach a user callable (an evaluation made for the sake of a message) -/",
         "  evals : List String", "  deriving Repr, DecidableEq", "",
         "def globals : List Global := ["]
    L.append(",\n".join(f'  {{ file := "{g["file"]}", name := "{g["name"]}", place := "{g["where"]}", line := {g["line"]}, writes := {lstr(g["writes"])} }}' for g in globs))
    L += ["]", "", "def defaults : List Default := ["]
    L.append(",\n".join(f'  {{ file := "{d["file"]}", func := "{d["func"]}", param := "{d["param"]}", line := {d["line"]}, writes := {lstr(d["writes"])}, escapes := {lstr(d["escapes"])} }}' for d in defaults))
    L += ["]", "", "def display : List Display := ["]
    L.append(",\n".join(f'  {{ file := "{d["file"]}", line := {d["line"]}, kind := "{d["kind"]}", leaks := {lstr(d["leaks"])}, writes := {lstr(d["writes"])}, jumps := {lstr(d["jumps"])}, evals := {lstr(d.get("evals", []))} }}' for d in display))
    L += ["]", "", "/-- in-place modifications, in `minimize_lbfgsb`, of `x0`, `bounds`, `checkpoint`, `args` or of a name bound directly to (a part of) one of them -/",
          f"def inputWrites : List String := {lstr(input_writes)}", "", "end Lbfgsb.Generated.State", ""]
    return "\n".join(L)


def main(repo: str = "/repo", out: str = str(Path(__file__).resolve().parent.parent / "lean" / "LbfgsbVerif" / "Generated" / "State.lean")):
    repo, out = Path(repo), Path(out)
    txt = emit(*analyse(repo))
    if not out.exists() or out.read_text() != txt:
        out.write_text(txt)
    print(f"state2lean: wrote {out}")


if __name__ == "__main__":
    main(*sys.argv[1:3])
