#!/bin/bash
# usage: ownsweep.sh <out.jsonl> <entry>... : for each named seeded change, apply it to /repo's working tree, run ONLY the check of the
# property it was seeded for (quick tier), record rc and the first VIOLATION line, restore the tree. Cheaper than matrix_delta.sh: used
# after the generators changed, to see that earlier seeds are still caught by their own check.
cd "$(dirname "$0")"
out=$1; shift
if [ -n "$(git -C /repo status --porcelain)" ]; then echo "/repo not clean"; exit 4; fi
for s in "$@"; do
  id=${s%%-*}
  git -C /repo apply "$(pwd)/seeded/$s/patch.diff" || { echo "{\"entry\": \"$s\", \"error\": \"patch does not apply\"}" >> "$out"; continue; }
  o=$(./check $id --tier quick 2>&1); rc=$?
  v=$(echo "$o" | grep -m1 -A1 "^VIOLATION" | tr '\n' ' ' | cut -c1-300 | sed 's/"/'"'"'/g')
  echo "{\"entry\": \"$s\", \"own\": \"$id\", \"rc\": $rc, \"first\": \"$v\"}" >> "$out"
  git -C /repo checkout -- . ; git -C /repo reset -q --hard HEAD
done
for t in handlers2lean bench2lean state2lean defaults2lean; do /venv/bin/python translate/$t.py >/dev/null; done
echo done
