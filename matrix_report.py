"""reads seeded/MATRIX.jsonl -> (1) table for DESIGN.md §8.7, (2) updates seeded/<id>/meta.json with what was run and which checks raised the alarm"""
import json, sys, subprocess
from pathlib import Path
V=Path('/verif')
rows=[json.loads(l) for l in open(V/'seeded/MATRIX.jsonl')]
fix_subject={}
for l in subprocess.run(["git","-C","/repo","log","--format=%h %s","--grep=^fix:"],capture_output=True,text=True).stdout.splitlines():
    h,_,s=l.partition(" "); fix_subject[h]=s
out=["| change | what it is | repository's tests | checks raising the alarm (quick tier, seed 0) |","|---|---|---|---|"]
missed=[]
for d in rows:
    e=d["entry"]
    if "error" in d:
        out.append(f"| {e} | — | — | {d['error']} |"); continue
    hit=[k for k,v in d["checks"].items() if v["rc"]==1]
    err=[k for k,v in d["checks"].items() if v["rc"] not in (0,1)]
    if d["kind"]=="seed":
        meta=json.load(open(V/'seeded'/e/'meta.json'))
        what=meta.get("summary","")[:160].replace("|","/")
        own=meta.get("property","")
        own_hit = own in hit
        if not own_hit: missed.append(e)
        meta["confirmed"]={"tests_with_change":d["tests"],"demo":"exit 1 with the change, exit 0 without (seedconfirm.sh, scratch worktree of /repo HEAD)"}
        meta["what_i_ran"]="git -C /repo apply seeded/%s/patch.diff; every check of MANIFEST.json (quick tier, VERIF_SEED=0) via matrix.sh; git -C /repo checkout -- ."%e
        meta["checks_raising_alarm"]=hit
        meta["caught_by_own_property_check"]=own_hit
        nf=[k for k in hit if "no-failing-input-found" in d["checks"][k]["first"]]
        meta["alarms_without_concrete_input"]=nf
        json.dump(meta,open(V/'seeded'/e/'meta.json','w'),indent=1)
        label=f"seeded for {own}"
    else:
        what="reverse of: "+fix_subject.get(e,"")[:150].replace("|","/")
        label="reverted fix"
    out.append(f"| {e} ({label}) | {what} | {d['tests'].split(' in ')[0]} | {', '.join(hit) if hit else '**none**'}{' (machinery error: '+', '.join(err)+')' if err else ''} |")
print("\n".join(out))
print("\nseeds not caught by the check of their own property:", missed, file=sys.stderr)
