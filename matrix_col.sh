#!/bin/bash
# usage: matrix_col.sh <matrix.jsonl> <ID>... : re-run only the named checks (columns) for every entry of an existing matrix file
# (seeded changes and reverted fixes), replacing those columns; used after a check was strengthened. Serial; /repo restored after each.
cd "$(dirname "$0")"
out=$1; shift
cols="$@"
if [ -n "$(git -C /repo status --porcelain)" ]; then echo "/repo not clean"; exit 4; fi
/venv/bin/python - "$out" <<'PY' > /tmp/matrix_entries.txt
import json,sys
for l in open(sys.argv[1]):
    d=json.loads(l)
    if "checks" in d: print(d["entry"], d["kind"])
PY
while read -r e kind; do
  if [ "$kind" = "seed" ]; then
    git -C /repo apply "$(pwd)/seeded/$e/patch.diff" || continue
  else
    git -C /repo revert --no-commit $e >/dev/null 2>&1 || { git -C /repo revert --abort >/dev/null 2>&1; git -C /repo reset -q --hard HEAD; continue; }
    git -C /repo reset -q
  fi
  for id in $cols; do
    o=$(./check $id --tier quick 2>&1); rc=$?
    v=$(echo "$o" | grep -m1 -A1 "^VIOLATION" | tr '\n' ' ' | cut -c1-300 | sed 's/"/'"'"'/g')
    /venv/bin/python - "$out" "$e" "$id" "$rc" "$v" <<'PY'
import json,sys
p,e,i,rc,v=sys.argv[1:6]
L=[json.loads(l) for l in open(p)]
for d in L:
    if d["entry"]==e and "checks" in d: d["checks"][i]={"rc":int(rc),"first":v}
open(p,"w").write("".join(json.dumps(d)+"\n" for d in L))
PY
  done
  git -C /repo revert --abort >/dev/null 2>&1; git -C /repo checkout -- . ; git -C /repo reset -q --hard HEAD
done < /tmp/matrix_entries.txt
for t in handlers2lean bench2lean state2lean defaults2lean; do /venv/bin/python translate/$t.py >/dev/null; done
echo done
